(* Proofs/SysProofs.v — invariants of the whole-pipeline monitor Sys.sys_step (repaired variants
   scfg_fixed / hcfg_fixed) and the properties C04 (at most once, only dispatched, never after
   cancellation), C03 (no early start, outside the F9b window), C06 (outcomes). *)
From GK Require Import PropCheck SysCheck.
From GK.Proofs Require Import BaseLemmas RepoProofs RepoProofs2.
From Coq Require Import ZifyBool.

(* ================================================================================================ *)
(* runs                                                                                              *)
(* ================================================================================================ *)
Fixpoint sys_run (sc : scfg) (hc : hcfg) (s : sys) (tr : list slabel) : option sys :=
  match tr with
  | [] => Some s
  | l :: r => match sys_step sc hc s l with Some s' => sys_run sc hc s' r | None => None end
  end.

Definition repo_of (s : sys) : repo := hs_repo (sy_h s).

(* the only side condition: AddTask draws a fresh id (uuid) *)
Definition label_ok (s : sys) (l : slabel) : Prop :=
  match l with
  | LUser (HAdd _ _ fresh _) _ => ~ In fresh (ids_of (repo_of s))
  | _ => True
  end.

Fixpoint sys_run_ok (sc : scfg) (hc : hcfg) (s : sys) (tr : list slabel) : Prop :=
  match tr with
  | [] => True
  | l :: r => label_ok s l /\ match sys_step sc hc s l with Some s' => sys_run_ok sc hc s' r | None => True end
  end.

Definition sstepf := sys_step scfg_fixed hcfg_fixed.
Definition srun := sys_run scfg_fixed hcfg_fixed.
Definition srun_ok := sys_run_ok scfg_fixed hcfg_fixed.

Definition reachable (s : sys) : Prop := exists tr, srun sys_init tr = Some s /\ srun_ok sys_init tr.

Lemma sys_run_app sc hc s tr1 tr2 :
  sys_run sc hc s (tr1 ++ tr2) = match sys_run sc hc s tr1 with Some s' => sys_run sc hc s' tr2 | None => None end.
Proof. revert s. induction tr1 as [|l r IH]; cbn; intros s; auto. destruct (sys_step sc hc s l); auto. Qed.
Lemma sys_run_ok_app sc hc s tr1 tr2 s1 :
  sys_run sc hc s tr1 = Some s1 ->
  (sys_run_ok sc hc s (tr1 ++ tr2) <-> sys_run_ok sc hc s tr1 /\ sys_run_ok sc hc s1 tr2).
Proof.
  revert s. induction tr1 as [|l r IH]; cbn; intros s H.
  - inv H. tauto.
  - destruct (sys_step sc hc s l) as [s'|]; [|discriminate]. rewrite (IH s' H). tauto.
Qed.

(* ================================================================================================ *)
(* the hook never touches the repository                                                             *)
(* ================================================================================================ *)
Lemma hk_update_repo f n h : hs_repo (hk_update f n h) = hs_repo h.
Proof. unfold hk_update. destruct (negb _); [reflexivity|]. destruct f; [reflexivity|]. destruct (get_next _); reflexivity. Qed.
Lemma hk_refresh_repo f n h : hs_repo (hk_refresh f n h) = hs_repo h.
Proof.
  unfold hk_refresh. destruct (negb _); [reflexivity|]. destruct f; [apply hk_update_repo|].
  destruct (get_next _); [|apply hk_update_repo]. destruct (hk_cached _); [|apply hk_update_repo].
  destruct (String.eqb _ _); [reflexivity | apply hk_update_repo].
Qed.
Lemma hook_add_repo f n p h : hs_repo (hook_add f n p h) = hs_repo h.
Proof. unfold hook_add. destruct (hk_cached _); [destruct (task_less _ _)|]; auto using hk_update_repo. Qed.
Lemma hook_update_repo hc f n id p h : hs_repo (hook_update hc f n id p h) = hs_repo h.
Proof.
  unfold hook_update. generalize (if hc_normalize hc then norm_uparam p else p). clear p. intros p.
  unfold hook_update_raw. destruct (hk_cached _) as [c|]; [|apply hk_update_repo].
  assert (O : forall p0, hs_repo ((fun p1 : uparam =>
      if match u_sched p1 with
         | Some x => if hc_inclusive hc then negb (t_after x (t_sched c)) else t_before x (t_sched c)
         | None => false end
      then hk_update f n h
      else if match u_prio p1 with
              | Some x => is_none (u_sched p1) && (if hc_inclusive hc then t_prio c <=? x else t_prio c <? x)
              | None => false end
           then hk_update f n h else h) p0) = hs_repo h).
  { intros p0. cbn beta. destruct (match u_sched p0 with Some _ => _ | None => _ end); [apply hk_update_repo|].
    destruct (match u_prio p0 with Some _ => _ | None => _ end); [apply hk_update_repo | reflexivity]. }
  destruct (String.eqb id (t_id c)).
  - destruct (is_none (u_prio p) && is_none (u_sched p)); [reflexivity|].
    destruct (task_less _ c); [apply hk_update_repo|].
    destruct (hc_refresh_on_demote hc); [apply hk_refresh_repo | apply O].
  - apply O.
Qed.
Lemma hook_cancel_repo f n id h : hs_repo (hook_cancel f n id h) = hs_repo h.
Proof. unfold hook_cancel. destruct (hk_cached _); [destruct (String.eqb _ _)|]; auto using hk_update_repo. Qed.
Lemma hook_dispatched_repo f n id h : hs_repo (hook_dispatched f n id h) = hs_repo h.
Proof. unfold hook_dispatched. destruct (hk_cached _); [destruct (String.eqb _ _)|]; auto using hk_update_repo. Qed.
Lemma hook_start_repo f n h : hs_repo (hook_start f n h) = hs_repo h.
Proof. unfold hook_start. rewrite hk_update_repo. reflexivity. Qed.
Lemma hook_stop_repo h : hs_repo (hook_stop h) = hs_repo h.
Proof. reflexivity. Qed.

(* the repository operation behind a wrapper call *)
Definition hop_op (o : hop) : option op :=
  match o with
  | HAdd _ now fresh p => Some (OAdd false now fresh p)
  | HUpdate _ _ id p => Some (OUpdate false id p)
  | HCancel _ now id => Some (OCancel false now id)
  | HDispatch _ now id => Some (ODispatch false now id)
  | _ => None
  end.

Lemma is_ok_is_err x : is_ok x = negb (is_err x). Proof. destruct x; reflexivity. Qed.

Lemma hstep_repo hc h o op :
  hop_op o = Some op ->
  hs_repo (fst (hstep hc h o)) = fst (step cfg_inmem (hs_repo h) op)
  /\ snd (hstep hc h o) = snd (step cfg_inmem (hs_repo h) op).
Proof.
  intros H. pose proof (error_no_change cfg_inmem (hs_repo h) op) as ENC.
  destruct o; cbn in H; inv H; cbn [hstep];
    match goal with |- context [step cfg_inmem ?r ?o] => destruct (step cfg_inmem r o) as [r' x] eqn:St end;
    cbn [fst snd] in *; rewrite is_ok_is_err; destruct (is_err x) eqn:E; cbn [negb fst snd]; split; auto;
    try (symmetry; auto);
    rewrite ?hook_add_repo, ?hook_update_repo, ?hook_cancel_repo, ?hook_dispatched_repo; reflexivity.
Qed.

(* ================================================================================================ *)
(* a relational reading of sys_step (repaired variants): one constructor per label / program point   *)
(* ================================================================================================ *)
Definition disp_eff (f : fault) (r : repo) (now : gtime) (id : string) (r' : repo) (x : res) : Prop :=
  match f with
  | FBefore | FBeforeHook => r' = r /\ x = RErr EOther
  | FNone => r' = fst (step cfg_inmem r (ODispatch false now id)) /\ x = snd (step cfg_inmem r (ODispatch false now id))
  | FAfter => r' = fst (step cfg_inmem r (ODispatch false now id)) /\ x = RErr EOther
  end.
Definition done_eff (f : fault) (r : repo) (now : gtime) (id : string) (e : option string) (r' : repo) (x : res) : Prop :=
  match f with
  | FBefore | FBeforeHook => r' = r /\ x = RErr EOther
  | FNone => r' = fst (step cfg_inmem r (ODone false now id e)) /\ x = snd (step cfg_inmem r (ODone false now id e))
  | FAfter => r' = fst (step cfg_inmem r (ODone false now id e)) /\ x = RErr EOther
  end.

Lemma call_mark_disp_eff hc f hf now id h h' x :
  call_mark_disp hc f hf now id h = (h', x) -> disp_eff f (hs_repo h) now id (hs_repo h') x.
Proof.
  unfold call_mark_disp, faulty, disp_eff. intros H.
  destruct (hstep_repo hc h (HDispatch hf now id) _ eq_refl) as [A B].
  destruct (hstep hc h (HDispatch hf now id)) as [h1 x1] eqn:E. cbn [fst snd] in A, B.
  destruct f; cbv beta in H; rewrite ?E in H; inv H; auto.
  rewrite hook_dispatched_repo. auto.
Qed.
Lemma call_mark_done_eff f now id e h h' x :
  call_mark_done f now id e h = (h', x) -> done_eff f (hs_repo h) now id e (hs_repo h') x.
Proof.
  unfold call_mark_done, faulty, done_eff. intros H.
  destruct (step cfg_inmem (hs_repo h) (ODone false now id e)) as [r1 x1] eqn:St.
  destruct f; inv H; cbn; auto.
Qed.

Definition boring_state (st : sstate) : Prop :=
  match st with SDispatchErr _ | STaskDone _ _ _ => False | _ => True end.
Definition boring (pc : spc) : Prop :=
  match pc with
  | PIdle | PFire2 _ | PDisp1 _ _ | PDisp2 _ _ | PRetryDE _ | PRetryTD _ _ => False
  | PEnd st _ => boring_state st
  | _ => True
  end.

Definition retry_pc (prev : sstate) : spc :=
  match prev with
  | STimerUpdateError => PRestart1 KRetry
  | SDispatchErr t => PRetryDE t
  | STaskDone id o _ => PRetryTD id o
  | _ => PEnd SNone false
  end.
Definition retry_of (st : sstate) : option sstate :=
  if match st with
     | STimerUpdateError | SDispatchErr _ => true
     | SNextTask ok _ => negb ok
     | STaskDone _ _ u => u
     | _ => false
     end then Some st else None.
Definition reports_after (st : sstate) (l : list string) : list string :=
  match st with STaskDone id _ _ => id :: l | _ => l end.
Definition re_of (k : kont) : bool := match k with KStep => false | KRetry => true end.
Definition err_match (e : option string) (o : outcome) : bool :=
  match e, outcome_err o with Some a, Some b => String.eqb a b | None, None => true | _, _ => false end.

(* the (program point, call) pairs that only move control *)
Definition ctl_ok (pc : spc) (c : scall) : Prop :=
  match pc, c with
  | PStep0, CLtue | PStep0, CStop | PRestart1 _, CStop | PRestart2 _, CStart | PRestart3 _, CLtue
  | PStepMain, CTimerCh | PFire1, CGetNext | PFire2 _, CNextSched | PRetryDE _, CGetById _ => True
  | _, _ => False
  end.

Inductive sstep (s : sys) : slabel -> sys -> Prop :=
| SUserOp o r op h' :
    hop_op o = Some op -> (forall f n id, o <> HDispatch f n id) ->
    hs_repo h' = fst (step cfg_inmem (repo_of s) op) ->
    res_eqb (snd (step cfg_inmem (repo_of s) op)) r = true ->
    sstep s (LUser o r) (set_h s h')
| SUserStart f n r h' : hs_repo h' = repo_of s -> sstep s (LUser (HStart f n) r) (set_h s h')
| SAdvance n tm : inst (sy_now s) <= inst n ->
    sstep s (LAdvance n)
      (mkSys (mkHS (hs_repo (sy_h s)) (hs_hook (sy_h s)) tm) n (sy_last s) (sy_err s) (sy_pc s)
             (sy_accepted s) (sy_running s) (sy_results s) (sy_starts s) (sy_reports s) (sy_retry s))
| SStepBegin : sy_pc s = PIdle ->
    sstep s LStepBegin
      (mkSys (sy_h s) (sy_now s) (sy_last s) (sy_err s) PStep0
             (sy_accepted s) (sy_running s) (sy_results s) (sy_starts s) (sy_reports s) None)
| SRetryBegin prev p : sy_retry s = Some p -> sstate_eqb p prev = true -> sy_pc s = PIdle ->
    sstep s (LRetryBegin prev)
      (mkSys (sy_h s) (sy_now s) (sy_last s) (sy_err s) (retry_pc prev)
             (sy_accepted s) (sy_running s) (sy_results s) (sy_starts s) (sy_reports s) None)
| SStepEnd st re st' : sy_pc s = PEnd st' re -> sstate_eqb st st' = true ->
    sstep s (LStepEnd st re)
      (mkSys (sy_h s) (sy_now s) (sy_last s) (sy_err s) PIdle
             (sy_accepted s) (sy_running s) (sy_results s) (sy_starts s) (reports_after st' (sy_reports s)) (retry_of st'))
| SStepEndCanceled id rest : sy_pc s = PSelect -> sy_results s = (id, OCanceled) :: rest ->
    sstep s (LStepEnd (STaskDone id OCanceled false) false)
      (mkSys (sy_h s) (sy_now s) (sy_last s) (sy_err s) PIdle
             (sy_accepted s) (sy_running s) rest (sy_starts s) (id :: sy_reports s) None)
| SWorkStart id x t :
    List.find (fun x => String.eqb (fst x) id) (sy_accepted s) = Some (x, t) ->
    sstep s (LWorkStart id (sy_now s) t)
      (mkSys (sy_h s) (sy_now s) (sy_last s) (sy_err s) (sy_pc s)
             (remove_first id (sy_accepted s)) (id :: sy_running s) (sy_results s)
             ((id, sy_now s, t) :: sy_starts s) (sy_reports s) (sy_retry s))
| SDump l n b : sstep s (LDump l n b) s
| SFire tm : sy_pc s = PSelect ->
    sstep s LFire (set_pc (set_h s (mkHS (hs_repo (sy_h s)) (hs_hook (sy_h s)) tm)) PFire1)
| SWorkEnd id o : str_mem id (sy_running s) = true ->
    sstep s (LWorkEnd id o)
      (mkSys (sy_h s) (sy_now s) (sy_last s) (sy_err s) (sy_pc s) (sy_accepted s) (str_del id (sy_running s))
             (sy_results s ++ [(id, o)]) (sy_starts s) (sy_reports s) (sy_retry s))
(* a worker reports without ever starting the work function: unknown work id (ONotFound), or the dispatch
   context was cancelled between the fetch and the start (OCanceled) *)
| SWorkEndNotFound id o p : str_mem id (sy_running s) = false ->
    List.find (fun x => String.eqb (fst x) id) (sy_accepted s) = Some p ->
    o = ONotFound \/ o = OCanceled ->
    sstep s (LWorkEnd id o)
      (mkSys (sy_h s) (sy_now s) (sy_last s) (sy_err s) (sy_pc s) (remove_first id (sy_accepted s)) (sy_running s)
             (sy_results s ++ [(id, o)]) (sy_starts s) (sy_reports s) (sy_retry s))
(* scheduler calls that only move the program counter / the hook / the timer *)
| SCtl c f hf r h' last' err' pc' :
    sy_pc s <> PIdle -> (forall k t, sy_pc s <> PDisp2 k t) -> hs_repo h' = repo_of s -> boring pc' ->
    (last' = sy_last s \/ last' = None) ->
    (last' = None \/ (pc' <> PSelect /\ pc' <> PFire1)) ->
    ctl_ok (sy_pc s) c -> (c = CGetNext -> forall t, r <> RRes (RTask t)) ->
    sstep s (LCall c f hf r)
      (mkSys h' (sy_now s) last' err' pc' (sy_accepted s) (sy_running s) (sy_results s) (sy_starts s) (sy_reports s) (sy_retry s))
| SMarkDispStep t f hf r h' x : sy_pc s = PStepMain -> sy_last s = Some t ->
    disp_eff f (repo_of s) (sy_now s) (t_id t) (hs_repo h') x -> cret_eqb r (RRes x) = true ->
    sstep s (LCall (CMarkDisp (t_id t)) f hf r)
      (set_sched (set_h s h') None false (if is_err_res x then PEnd (SDispatchErr t) false else PDisp2 KStep t))
| SMarkDispRetry k t f hf r h' x : sy_pc s = PDisp1 k t ->
    disp_eff f (repo_of s) (sy_now s) (t_id t) (hs_repo h') x -> cret_eqb r (RRes x) = true ->
    sstep s (LCall (CMarkDisp (t_id t)) f hf r)
      (set_pc (set_h s h') (if is_err_res x then PEnd (SDispatchErr t) true else PDisp2 k t))
| SFetchOk k t f hf r t' : sy_pc s = PDisp2 k t -> lookup (t_id t) (repo_of s) = Some t' -> f = FNone ->
    sstep s (LCall (CGetById (t_id t)) f hf r) (accept_task s t')
| SFetchFail k t f hf r : sy_pc s = PDisp2 k t ->
    sstep s (LCall (CGetById (t_id t)) f hf r) (set_pc s (PEnd (SDispatchErr t) (re_of k)))
| SGetNextOk f hf r t : sy_pc s = PFire1 -> get_next (repo_of s) = Some t -> f = FNone ->
    r = RRes (RTask t) ->
    sstep s (LCall CGetNext f hf r) (set_pc s (PFire2 t))
| SAnnounce next f hf r : sy_pc s = PFire2 next -> t_after (t_sched next) (sy_now s) = false ->
    sstep s (LCall CNextSched f hf r) (set_sched s (Some next) false (PEnd (SNextTask true (Some next)) false))
| SMarkDone id o rest e f hf r h' x : sy_pc s = PSelect -> sy_results s = (id, o) :: rest ->
    outcome_eqb o OCanceled = false -> err_match e o = true ->
    done_eff f (repo_of s) (sy_now s) id e (hs_repo h') x -> cret_eqb r (RRes x) = true ->
    sstep s (LCall (CMarkDone id e) f hf r)
      (mkSys h' (sy_now s) (sy_last s) (sy_err s) (PEnd (STaskDone id o (is_err_res x)) false) (sy_accepted s)
             (sy_running s) rest (sy_starts s) (sy_reports s) (sy_retry s))
| SRetryFetchSched t f hf r t' : sy_pc s = PRetryDE t -> lookup (t_id t) (repo_of s) = Some t' ->
    t_state t' = Scheduled -> t_after (t_sched t') (sy_now s) = false -> f = FNone -> r = RRes (RTask t') ->
    sstep s (LCall (CGetById (t_id t)) f hf r) (set_pc s (PDisp1 KRetry t'))
| SRetryFetchDisp t f hf r t' : sy_pc s = PRetryDE t -> lookup (t_id t) (repo_of s) = Some t' ->
    t_state t' = Dispatched -> f = FNone -> r = RRes (RTask t') ->
    sstep s (LCall (CGetById (t_id t)) f hf r) (set_pc s (PDisp2 KRetry t'))
| SRetryFetchFail t f hf r : sy_pc s = PRetryDE t ->
    sstep s (LCall (CGetById (t_id t)) f hf r) (set_pc s (PEnd (SDispatchErr t) true))
| SRetryDone id o e' f hf r h' x pc' : sy_pc s = PRetryTD id o ->
    done_eff f (repo_of s) (sy_now s) id (outcome_err o) (hs_repo h') x -> cret_eqb r (RRes x) = true ->
    pc' = PEnd SNone false \/ pc' = PEnd (STaskDone id o true) true ->
    sstep s (LCall (CMarkDone id e') f hf r) (set_pc (set_h s h') pc').

Lemma tasks_eqb_eq a b : tasks_eqb a b = true <-> a = b.
Proof.
  revert b. induction a as [|x a IH]; destruct b as [|y b]; cbn; try (split; congruence).
  rewrite andb_true_iff, task_eqb_eq, IH. split; [intros [-> ->]; reflexivity | intros H; inv H; auto].
Qed.
Lemma res_eqb_eq a b : res_eqb a b = true <-> a = b.
Proof.
  destruct a, b; cbn; try (split; congruence).
  - rewrite task_eqb_eq. split; congruence.
  - rewrite tasks_eqb_eq. split; congruence.
  - rewrite err_eqb_eq. split; congruence.
Qed.
Lemma cret_eqb_res r x : cret_eqb r (RRes x) = true -> r = RRes x.
Proof. destruct r; cbn; try discriminate. rewrite res_eqb_eq. congruence. Qed.

Ltac simp_sys :=
  unfold set_pc, set_h, set_sched, accept_task;
  cbn [sy_h sy_now sy_last sy_err sy_pc sy_accepted sy_running sy_results sy_starts sy_reports sy_retry].

Ltac ctl P :=
  simp_sys; apply SCtl;
  [ rewrite P; discriminate | intros ? ?; rewrite P; discriminate | try reflexivity | cbn; exact I | auto
  | first [left; reflexivity | right; split; discriminate]
  | rewrite P; exact I
  | first [intros Ec; discriminate Ec | intros _ ? ?; congruence] ].

Lemma sstepf_sstep s l s' : sstepf s l = Some s' -> sstep s l s'.
Proof.
  unfold sstepf. intros H. destruct l; cbn [sys_step] in H.
  - (* LUser *)
    destruct o; try discriminate;
      (destruct (hstep hcfg_fixed (sy_h s) _) as [h' x] eqn:E; destruct (res_eqb x r) eqn:R; inv H).
    + destruct (hstep_repo hcfg_fixed (sy_h s) (HAdd fault now fresh p) _ eq_refl) as [A B]. rewrite E in A, B. cbn [fst snd] in A, B.
      eapply SUserOp; [reflexivity | congruence | exact A | unfold repo_of; rewrite <- B; exact R].
    + destruct (hstep_repo hcfg_fixed (sy_h s) (HUpdate fault now id p) _ eq_refl) as [A B]. rewrite E in A, B. cbn [fst snd] in A, B.
      eapply SUserOp; [reflexivity | congruence | exact A | unfold repo_of; rewrite <- B; exact R].
    + destruct (hstep_repo hcfg_fixed (sy_h s) (HCancel fault now id) _ eq_refl) as [A B]. rewrite E in A, B. cbn [fst snd] in A, B.
      eapply SUserOp; [reflexivity | congruence | exact A | unfold repo_of; rewrite <- B; exact R].
    + cbn [hstep] in E. inv E. apply SUserStart. apply hook_start_repo.
  - (* LAdvance *)
    destruct (inst (sy_now s) <=? inst now) eqn:E; inv H. apply SAdvance. lia.
  - destruct (sy_pc s) eqn:P; inv H. apply SStepBegin; auto.
  - (* LRetryBegin *)
    cbn [sy_pc] in H. destruct (sy_retry s) as [p|] eqn:R; [destruct (sstate_eqb p prev) eqn:E|]; try discriminate.
    destruct (sy_pc s) eqn:P; try discriminate.
    destruct prev; inv H; simp_sys;
      match goal with |- sstep _ (LRetryBegin ?q) _ => apply (SRetryBegin s q p) end; auto.
  - (* LCall *)
    cbn [sc_clock_check sc_err_on_mismatch sc_retry_by_state scfg_fixed negb orb] in H.
    destruct (sy_pc s) eqn:P; destruct c; cbv iota beta in H; try discriminate.
    + (* PStep0 CLtue *)
      destruct (negb (sy_err s) && _); inv H. destruct (hk_err _); ctl P.
    + destruct (sy_err s && _); inv H. ctl P.
    + destruct (cret_eqb r RUnit); inv H. ctl P.
    + destruct (cret_eqb r RUnit); inv H. ctl P. apply hook_start_repo.
    + destruct (cret_eqb r _); inv H. destruct (hk_err _); [|destruct k]; ctl P.
    + destruct (sy_last s) eqn:L; try discriminate. destruct (cret_eqb r RUnit); inv H. ctl P.
    + (* PStepMain CMarkDisp *)
      destruct (sy_last s) as [t|] eqn:L; try discriminate.
      destruct (String.eqb id (t_id t)) eqn:I; try discriminate. apply String.eqb_eq in I; subst id.
      destruct (call_mark_disp _ _ _ _ _ _) as [h' x] eqn:C. destruct (cret_eqb r (RRes x)) eqn:R; inv H.
      apply call_mark_disp_eff in C.
      pose proof (SMarkDispStep s t f hf r h' x P L C R) as G. destruct (is_err_res x); exact G.
    + (* PSelect CMarkDone *)
      destruct (sy_results s) as [|[id' o] rest] eqn:Rs; try discriminate.
      destruct (String.eqb id id' && negb (outcome_eqb o OCanceled) && _) eqn:E; try discriminate.
      destruct (call_mark_done _ _ _ _ _) as [h' x] eqn:C. destruct (cret_eqb r (RRes x)) eqn:R; inv H.
      apply call_mark_done_eff in C. apply andb_true_iff in E as [E E3]. apply andb_true_iff in E as [E1 E2].
      apply String.eqb_eq in E1; subst id'. apply negb_true_iff in E2.
      eapply SMarkDone; eauto.
    + (* PFire1 CGetNext *)
      destruct (cret_eqb r _) eqn:R; try discriminate. apply cret_eqb_res in R.
      destruct (call_get_next f (sy_h s)) eqn:X; inv H; try (ctl P).
      unfold call_get_next in X. destruct f; try discriminate.
      cbn [step c_next_ctx cfg_inmem andb snd] in X. destruct (get_next (hs_repo (sy_h s))) eqn:G; inv X.
      eapply SGetNextOk; eauto.
    + (* PFire2 CNextSched *)
      destruct (cret_eqb r _); try discriminate.
      destruct (_ && negb (t_after (t_sched next) (sy_now s))) eqn:E; inv H.
      * apply andb_true_iff in E as [E1 E2]. apply negb_true_iff in E2. apply SAnnounce; auto.
      * ctl P.
    + (* PDisp1 CMarkDisp *)
      destruct (String.eqb id (t_id t)) eqn:I; try discriminate. apply String.eqb_eq in I; subst id.
      destruct (call_mark_disp _ _ _ _ _ _) as [h' x] eqn:C. destruct (cret_eqb r (RRes x)) eqn:R; inv H.
      apply call_mark_disp_eff in C.
      pose proof (SMarkDispRetry s k t f hf r h' x P C R) as G. destruct (is_err_res x); exact G.
    + (* PDisp2 CGetById *)
      destruct (String.eqb id (t_id t)) eqn:I; try discriminate. apply String.eqb_eq in I; subst id.
      destruct (cret_eqb r _) eqn:R; try discriminate.
      destruct (call_get_by_id f (t_id t) (sy_h s)) eqn:X; inv H; try (eapply SFetchFail; eauto; fail).
      unfold call_get_by_id in X. destruct f; try discriminate. cbn [step snd] in X.
      destruct (lookup (t_id t) (hs_repo (sy_h s))) eqn:L; inv X. eapply SFetchOk; eauto.
    + (* PRetryDE CGetById *)
      destruct (String.eqb id (t_id t)) eqn:I; try discriminate. apply String.eqb_eq in I; subst id.
      destruct (cret_eqb r _) eqn:R; try discriminate. apply cret_eqb_res in R.
      destruct (call_get_by_id f (t_id t) (sy_h s)) as [| t0 | l0 | e0] eqn:X;
        try (inv H; eapply SRetryFetchFail; eauto; fail);
        try (destruct e0; inv H; first [eapply SRetryFetchFail; eauto; fail | ctl P]; fail).
      unfold call_get_by_id in X. destruct f; try discriminate. cbn [step snd] in X.
      destruct (lookup (t_id t) (hs_repo (sy_h s))) eqn:L; inv X.
      destruct (t_state t0) eqn:S; try (inv H; ctl P; fail).
      * destruct (t_after (t_sched t0) (sy_now s)) eqn:A; inv H; [ctl P | eapply SRetryFetchSched; eauto].
      * inv H. eapply SRetryFetchDisp; eauto.
    + (* PRetryTD CMarkDone *)
      destruct (String.eqb id id0 && _) eqn:E; try discriminate. apply andb_true_iff in E as [E1 E2].
      apply String.eqb_eq in E1; subst id0.
      destruct (call_mark_done _ _ _ _ _) as [h' x] eqn:C. destruct (cret_eqb r (RRes x)) eqn:R; inv H.
      apply call_mark_done_eff in C. eapply SRetryDone; eauto.
      destruct x as [| | |e0]; auto; destruct e0; auto.
  - (* LStepEnd *)
    destruct (sy_pc s) eqn:P; try discriminate.
    + destruct st as [| | | | |id o u|]; try discriminate. destruct o; try discriminate. destruct u; try discriminate.
      destruct (sy_results s) as [|[id' o'] rest] eqn:R; try discriminate. destruct o'; try discriminate.
      destruct (String.eqb id id' && negb retry_err) eqn:E; inv H. apply andb_true_iff in E as [E1 E2].
      apply String.eqb_eq in E1; subst. destruct retry_err; [discriminate|]. eapply SStepEndCanceled; eauto.
    + destruct (sstate_eqb st st0 && Bool.eqb retry_err retry_err0) eqn:E; inv H. apply andb_true_iff in E as [E1 E2].
      apply eqb_prop in E2; subst. apply SStepEnd; auto.
  - (* LWorkStart *)
    destruct (List.find _ (sy_accepted s)) as [[x t]|] eqn:F; try discriminate.
    destruct (gtime_eqb now (sy_now s) && task_eqb snap t) eqn:E; inv H. apply andb_true_iff in E as [E1 E2].
    apply gtime_eqb_eq in E1. apply task_eqb_eq in E2. subst. eapply SWorkStart; eauto.
  - (* LWorkEnd *)
    destruct (str_mem id (sy_running s)) eqn:M; [inv H; apply SWorkEnd; auto|].
    destruct o; try discriminate; (destruct (List.find _ (sy_accepted s)) eqn:F; inv H; eapply SWorkEndNotFound; eauto).
  - destruct (_ && _); inv H. constructor.
  - destruct (sy_pc s) eqn:P; try discriminate. destruct (tm_pending _); inv H. apply SFire; auto.
  - discriminate.
Qed.

(* ================================================================================================ *)
(* the effect of one repository operation on one stored task                                         *)
(* ================================================================================================ *)
Lemma lookup_guarded x t want ek r upd id :
  lookup id r = Some t -> t_id upd = id ->
  lookup x (fst (guarded t want ek r upd)) =
  if String.eqb x id && state_eqb (t_state t) want then Some upd else lookup x r.
Proof.
  intros L I. unfold guarded. destruct (state_eqb (t_state t) want); cbn.
  - rewrite lookup_replace, I, andb_true_r. destruct (String.eqb_spec x id); auto. subst. rewrite L. reflexivity.
  - rewrite andb_false_r. destruct (ek t); reflexivity.
Qed.

Lemma step_lookup_cases c r o x t :
  wf_repo r -> lifecycle_op o -> lookup x r = Some t ->
  let r' := fst (step c r o) in
  lookup x r' = Some t
  \/ (t_state t = Scheduled /\ exists ctx p, o = OUpdate ctx x p /\ lookup x r' = Some (task_update t (norm_uparam p)))
  \/ (t_state t = Scheduled /\ exists ctx now, o = OCancel ctx now x /\ lookup x r' = Some (set_cancelled t now))
  \/ (t_state t = Scheduled /\ exists ctx now, o = ODispatch ctx now x /\ lookup x r' = Some (set_dispatched t now))
  \/ (t_state t = Dispatched /\ exists ctx now e, o = ODone ctx now x e /\ lookup x r' = Some (set_done t now e)).
Proof.
  intros W Hop L. cbv zeta.
  destruct o; try discriminate Hop; cbn [step].
  - left. set (t1 := to_task _ _ _).
    assert (lookup x (r ++ [t1]) = Some t) by (rewrite lookup_app, L; reflexivity).
    destruct (c_add_valid_first c); destruct (negb (is_valid t1)); destruct ctx; cbn; auto.
  - left. destruct ctx; cbn; auto. destruct (lookup id r); auto.
  - destruct (c_upd_valid_first c && invalid_update p); cbn; auto. destruct ctx; cbn; auto.
    destruct (lookup id r) as [t0|] eqn:L0; cbn; auto.
    destruct (state_eqb (t_state t0) Scheduled) eqn:E; cbn; [|destruct (err_kind_update t0); auto].
    destruct (negb (is_valid _)); cbn; auto.
    rewrite lookup_replace, task_update_id, (lookup_id _ _ _ L0).
    destruct (String.eqb_spec x id) as [->|NE]; auto.
    rewrite L. rewrite L in L0; inv L0. apply state_eqb_eq in E. right; left. eauto.
  - destruct ctx; cbn; auto. destruct (lookup id r) as [t0|] eqn:L0; cbn; auto.
    rewrite (lookup_guarded x t0 _ _ _ (set_cancelled t0 now) id L0 (lookup_id _ _ _ L0)).
    destruct (String.eqb_spec x id) as [->|NE]; cbn; auto. rewrite L in L0; inv L0.
    destruct (state_eqb (t_state t0) Scheduled) eqn:E; auto. apply state_eqb_eq in E. right; right; left. eauto.
  - destruct ctx; cbn; auto. destruct (lookup id r) as [t0|] eqn:L0; cbn; auto.
    rewrite (lookup_guarded x t0 _ _ _ (set_dispatched t0 now) id L0 (lookup_id _ _ _ L0)).
    destruct (String.eqb_spec x id) as [->|NE]; cbn; auto. rewrite L in L0; inv L0.
    destruct (state_eqb (t_state t0) Scheduled) eqn:E; auto. apply state_eqb_eq in E. right; right; right; left. eauto.
  - destruct ctx; cbn; auto. destruct (lookup id r) as [t0|] eqn:L0; cbn; auto.
    rewrite (lookup_guarded x t0 _ _ _ (set_done t0 now e) id L0 (lookup_id _ _ _ L0)).
    destruct (String.eqb_spec x id) as [->|NE]; cbn; auto. rewrite L in L0; inv L0.
    destruct (state_eqb (t_state t0) Dispatched) eqn:E; auto. apply state_eqb_eq in E. right; right; right; right. eauto 6.
  - left. destruct (c_find_ctx c && ctx); auto.
  - left. destruct (c_next_ctx c && ctx); auto. destruct (get_next r); auto.
Qed.

Definition claimed (st : state) : Prop := st = Dispatched \/ st = Done \/ st = Err.

(* a task that is not scheduled is only ever touched by MarkAsDone, and only while dispatched *)
Lemma step_frozen c r o x t :
  wf_repo r -> lifecycle_op o -> lookup x r = Some t -> t_state t <> Scheduled ->
  (forall ctx now e, o <> ODone ctx now x e) ->
  lookup x (fst (step c r o)) = Some t.
Proof.
  intros W Hop L NS ND. destruct (step_lookup_cases c r o x t W Hop L) as [H|[H|[H|[H|H]]]]; auto;
    try (destruct H as [H _]; congruence).
  destruct H as (_ & ctx & now & e & E & _). exfalso; eapply ND; eauto.
Qed.
Lemma step_frozen_ended c r o x t :
  wf_repo r -> lifecycle_op o -> lookup x r = Some t -> t_state t <> Scheduled -> t_state t <> Dispatched ->
  lookup x (fst (step c r o)) = Some t.
Proof.
  intros W Hop L NS ND. destruct (step_lookup_cases c r o x t W Hop L) as [H|[H|[H|[H|H]]]]; auto;
    destruct H as [H _]; congruence.
Qed.
Lemma step_claimed c r o x t :
  wf_repo r -> lifecycle_op o -> lookup x r = Some t -> claimed (t_state t) ->
  exists t', lookup x (fst (step c r o)) = Some t' /\ claimed (t_state t').
Proof.
  intros W Hop L C. destruct (step_lookup_cases c r o x t W Hop L) as [H|[H|[H|[H|H]]]]; eauto;
    try (destruct H as [H _]; destruct C as [C|[C|C]]; congruence).
  destruct H as (_ & ctx & now & e & _ & H). eexists; split; eauto. destruct e; cbn; unfold claimed; auto.
Qed.
(* where a dispatched task comes from *)
Lemma step_disp_origin c r o x t' :
  wf_repo r -> lifecycle_op o -> lookup x (fst (step c r o)) = Some t' -> t_state t' = Dispatched ->
  exists t, lookup x r = Some t /\
    (t' = t \/ (t_state t = Scheduled /\ exists ctx now, o = ODispatch ctx now x /\ t' = set_dispatched t now)).
Proof.
  intros W Hop L' D. destruct (lookup x r) as [t|] eqn:L.
  - exists t. split; auto.
    destruct (step_lookup_cases c r o x t W Hop L) as [H|[H|[H|[H|H]]]].
    + left; congruence.
    + destruct H as (S & ctx & p & _ & H). rewrite H in L'; inv L'. rewrite task_update_state in D. congruence.
    + destruct H as (_ & ctx & now & _ & H). rewrite H in L'; inv L'. discriminate.
    + destruct H as (S & ctx & now & E & H). rewrite H in L'; inv L'. right. eauto.
    + destruct H as (_ & ctx & now & e & _ & H). rewrite H in L'; inv L'. destruct e; discriminate.
  - destruct (new_tasks_scheduled c r o x t' Hop L L') as [S _]. congruence.
Qed.

Lemma wf_not_sched_err t : wf_task t = true -> t_state t <> Scheduled -> err_kind t ek_default <> None.
Proof. intros W NS. destruct (err_kind_sched_state t W NS) as (e & -> & _). discriminate. Qed.

(* successful guarded operations really took the edge *)
Lemma dispatch_ok r now id :
  wf_repo r -> is_err_res (snd (step cfg_inmem r (ODispatch false now id))) = false ->
  exists t, lookup id r = Some t /\ t_state t = Scheduled
            /\ lookup id (fst (step cfg_inmem r (ODispatch false now id))) = Some (set_dispatched t now).
Proof.
  intros W H. cbn [step] in *. destruct (lookup id r) as [t|] eqn:L; [|discriminate].
  exists t. split; auto. rewrite (lookup_guarded id t _ _ _ (set_dispatched t now) id L (lookup_id _ _ _ L)), String.eqb_refl.
  unfold guarded in H. destruct (state_eqb (t_state t) Scheduled) eqn:E; cbn in *.
  - apply state_eqb_eq in E. auto.
  - assert (NS : t_state t <> Scheduled) by (intros X; rewrite X in E; discriminate).
    pose proof (wf_not_sched_err t (wf_lookup _ _ _ W L) NS) as K. unfold err_kind_dispatch in H.
    destruct (err_kind t ek_default); [discriminate | congruence].
Qed.
Lemma cancel_ok r now id :
  wf_repo r -> snd (step cfg_inmem r (OCancel false now id)) = ROk ->
  exists t, lookup id r = Some t /\ t_state t = Scheduled
            /\ lookup id (fst (step cfg_inmem r (OCancel false now id))) = Some (set_cancelled t now).
Proof.
  intros W H. cbn [step] in *. destruct (lookup id r) as [t|] eqn:L; [|discriminate].
  exists t. split; auto. rewrite (lookup_guarded id t _ _ _ (set_cancelled t now) id L (lookup_id _ _ _ L)), String.eqb_refl.
  unfold guarded in H. destruct (state_eqb (t_state t) Scheduled) eqn:E; cbn in *.
  - apply state_eqb_eq in E. auto.
  - assert (NS : t_state t <> Scheduled) by (intros X; rewrite X in E; discriminate).
    pose proof (wf_not_sched_err t (wf_lookup _ _ _ W L) NS) as K. unfold err_kind_cancel in H.
    destruct (err_kind t ek_default); [discriminate | congruence].
Qed.
Lemma done_ok r now id e :
  wf_repo r -> snd (step cfg_inmem r (ODone false now id e)) = ROk ->
  exists t, lookup id r = Some t /\ t_state t = Dispatched
            /\ lookup id (fst (step cfg_inmem r (ODone false now id e))) = Some (set_done t now e).
Proof.
  intros W H. cbn [step] in *. destruct (lookup id r) as [t|] eqn:L; [|discriminate].
  exists t. split; auto. rewrite (lookup_guarded id t _ _ _ (set_done t now e) id L (lookup_id _ _ _ L)), String.eqb_refl.
  unfold guarded in H. destruct (state_eqb (t_state t) Dispatched) eqn:E; cbn in *.
  - apply state_eqb_eq in E. auto.
  - assert (NS : t_state t <> Dispatched) by (intros X; rewrite X in E; discriminate).
    destruct (err_kind_done_state t (wf_lookup _ _ _ W L) NS) as (e0 & K & _). unfold err_kind_done in H.
    rewrite K in H. discriminate.
Qed.
Lemma wf_in_lookup r t : wf_repo r -> In t r -> lookup (t_id t) r = Some t.
Proof.
  intros [N _]. induction r as [|x r IH]; cbn; intros H; [tauto|]. cbn in N. inv N.
  destruct H as [->|H]; [rewrite String.eqb_refl; reflexivity|].
  destruct (String.eqb_spec (t_id t) (t_id x)) as [E|NE]; auto.
  exfalso. apply H2. rewrite <- E. clear -H. induction r; cbn in *; intuition (subst; auto).
Qed.

(* ================================================================================================ *)
(* small list facts                                                                                  *)
(* ================================================================================================ *)
Lemma find_fst_some {B} id (l : list (string * B)) x t :
  List.find (fun x => String.eqb (fst x) id) l = Some (x, t) -> x = id /\ In (id, t) l.
Proof.
  intros H. apply find_some in H. destruct H as [H1 H2]. cbn in H2. apply String.eqb_eq in H2. subst. auto.
Qed.
Lemma in_remove_first id l p : In p (remove_first id l) -> In p l.
Proof.
  induction l as [|x l IH]; cbn; auto. destruct (String.eqb (fst x) id); cbn; auto. intros [H|H]; auto.
Qed.
Lemma in_ids_remove_first id l x : In x (map fst (remove_first id l)) -> In x (map fst l).
Proof. intros H. apply in_map_iff in H. destruct H as (p & E & H). apply in_remove_first in H. apply in_map_iff; eauto. Qed.
Lemma nodup_remove_first id l : NoDup (map fst l) -> NoDup (map fst (remove_first id l)).
Proof.
  induction l as [|x l IH]; cbn; auto. intros H. inv H. destruct (String.eqb (fst x) id); cbn; auto.
  constructor; auto. intros H. apply H2. eapply in_ids_remove_first; eauto.
Qed.
Lemma remove_first_notin id l : NoDup (map fst l) -> ~ In id (map fst (remove_first id l)).
Proof.
  induction l as [|x l IH]; cbn; auto. intros H. inv H. destruct (String.eqb_spec (fst x) id); cbn.
  - subst; auto.
  - intros [H|H]; [auto | apply IH in H; auto].
Qed.
Lemma str_mem_in id l : str_mem id l = true <-> In id l.
Proof.
  unfold str_mem. rewrite existsb_exists. split.
  - intros (x & H & E). apply String.eqb_eq in E. subst; auto.
  - intros H. exists id. split; auto. apply String.eqb_refl.
Qed.
Lemma in_str_del id l x : In x (str_del id l) -> In x l.
Proof. induction l as [|y l IH]; cbn; auto. destruct (String.eqb y id); cbn; auto. intros [H|H]; auto. Qed.
Lemma nodup_str_del id l : NoDup l -> NoDup (str_del id l).
Proof.
  induction l as [|y l IH]; cbn; auto. intros H. inv H. destruct (String.eqb y id); auto.
  constructor; auto. intros H. apply H2. eapply in_str_del; eauto.
Qed.
Lemma str_del_notin id l : NoDup l -> ~ In id (str_del id l).
Proof.
  induction l as [|y l IH]; cbn; auto. intros H. inv H. destruct (String.eqb_spec y id); cbn.
  - subst; auto.
  - intros [H|H]; [auto | apply IH in H; auto].
Qed.
Lemma nodup_snoc {A} (l : list A) x : NoDup l -> ~ In x l -> NoDup (l ++ [x]).
Proof.
  induction l as [|y l IH]; cbn; intros N H.
  - constructor; auto.
  - inv N. constructor; [|apply IH; auto]. rewrite in_app_iff. cbn. intuition.
Qed.
Lemma in_ids {B} (l : list (string * B)) id t : In (id, t) l -> In id (map fst l).
Proof. intros H. apply in_map_iff. exists (id, t); auto. Qed.

(* ================================================================================================ *)
(* the invariant                                                                                     *)
(* ================================================================================================ *)
Definition acc_ids (s : sys) : list string := map fst (sy_accepted s).
Definition res_ids (s : sys) : list string := map fst (sy_results s).
Definition start_ids (s : sys) : list string := map (fun x => fst (fst x)) (sy_starts s).
Definition pc_td (pc : spc) : list string := match pc with PEnd (STaskDone id _ _) _ => [id] | _ => [] end.
(* ids the dispatcher holds: accepted by a worker / work function running / result queued *)
Definition live (s : sys) : list string := acc_ids s ++ sy_running s ++ res_ids s.
(* ids whose run was reported (or is being reported by the current Step) *)
Definition ended (s : sys) : list string := sy_reports s ++ pc_td (sy_pc s).
Definition known (s : sys) : list string := live s ++ start_ids s ++ ended s.

Definition stored (P : state -> Prop) (s : sys) (id : string) : Prop :=
  exists t, lookup id (repo_of s) = Some t /\ P (t_state t).
Definition fresh_disp (s : sys) (id : string) : Prop := ~ In id (known s).
(* "if it is stored as dispatched then no worker has seen it yet" *)
Definition CF (s : sys) (id : string) : Prop :=
  forall t, lookup id (repo_of s) = Some t -> t_state t = Dispatched -> fresh_disp s id.

Definition de_pc (pc : spc) : Prop :=
  match pc with
  | PDisp1 _ _ | PDisp2 _ _ | PRetryDE _ | PEnd (SDispatchErr _) _ | PSelect | PFire1 | PFire2 _ => True
  | _ => False
  end.

Record SysInv (s : sys) : Prop := mkInv {
  inv_wf : wf_repo (repo_of s);
  inv_nd_acc : NoDup (acc_ids s);
  inv_nd_run : NoDup (sy_running s);
  inv_nd_res : NoDup (res_ids s);
  inv_acc_run : forall id, In id (acc_ids s) -> ~ In id (sy_running s);
  inv_acc_res : forall id, In id (acc_ids s) -> ~ In id (res_ids s);
  inv_run_res : forall id, In id (sy_running s) -> ~ In id (res_ids s);
  inv_live_ended : forall id, In id (live s) -> ~ In id (ended s);
  inv_nd_starts : NoDup (start_ids s);
  inv_run_started : forall id, In id (sy_running s) -> In id (start_ids s);
  inv_acc_unstarted : forall id, In id (acc_ids s) -> ~ In id (start_ids s);
  inv_starts_snap : forall id n snap, In (id, n, snap) (sy_starts s) -> t_state snap = Dispatched /\ t_id snap = id;
  inv_live_disp : forall id, In id (live s) -> stored (fun st => st = Dispatched) s id;
  inv_acc_snap : forall id t, In (id, t) (sy_accepted s) -> lookup id (repo_of s) = Some t;
  inv_known : forall id, In id (known s) -> stored claimed s id;
  inv_retry_idle : sy_pc s <> PIdle -> sy_retry s = None;
  inv_pc : match sy_pc s with
           | PFire2 t | PDisp1 _ t | PRetryDE t | PEnd (SDispatchErr t) _ => CF s (t_id t)
           | PDisp2 _ t => stored (fun st => st = Dispatched) s (t_id t) /\ fresh_disp s (t_id t)
           | PRetryTD id _ => In id (sy_reports s)
           | _ => True
           end;
  inv_retry : match sy_retry s with
              | Some (SDispatchErr t) => CF s (t_id t)
              | Some (STaskDone id _ _) => In id (sy_reports s)
              | _ => True
              end;
  inv_last : forall t, sy_last s = Some t ->
             ~ de_pc (sy_pc s) /\ (forall t', sy_retry s <> Some (SDispatchErr t')) /\ CF s (t_id t)
}.

Lemma SysInv_init : SysInv sys_init.
Proof.
  constructor; cbn; try (constructor; fail); try tauto; try discriminate; auto.
  - apply wf_empty.
Qed.

(* ================================================================================================ *)
(* preservation, field by field                                                                      *)
(* ================================================================================================ *)
Ltac unf :=
  unfold live, known, ended, acc_ids, res_ids, start_ids, accept_task in *;
  cbn [sy_h sy_now sy_last sy_err sy_pc sy_accepted sy_running sy_results sy_starts sy_reports sy_retry
       map fst snd pc_td app] in *.

Lemma in_known s id :
  In id (known s) <->
  In id (acc_ids s) \/ In id (sy_running s) \/ In id (res_ids s) \/ In id (start_ids s)
  \/ In id (sy_reports s) \/ In id (pc_td (sy_pc s)).
Proof. unfold known, live, ended. rewrite !in_app_iff. tauto. Qed.
Lemma in_live s id : In id (live s) <-> In id (acc_ids s) \/ In id (sy_running s) \/ In id (res_ids s).
Proof. unfold live. rewrite !in_app_iff. tauto. Qed.

Lemma accept_facts s k t t' :
  SysInv s -> sy_pc s = PDisp2 k t -> lookup (t_id t) (repo_of s) = Some t' ->
  t_id t' = t_id t /\ t_state t' = Dispatched /\ ~ In (t_id t') (known s).
Proof.
  intros I P L. pose proof (inv_pc s I) as H. rewrite P in H. destruct H as [(t0 & L0 & D) F].
  rewrite L in L0; inv L0. rewrite (lookup_id _ _ _ L). auto.
Qed.

Section Pres.
Variables (s s' : sys) (l : slabel).
Hypothesis I : SysInv s.
Hypothesis Hstep : sstep s l s'.

Lemma pres_nd_acc : NoDup (acc_ids s').
Proof.
  destruct Hstep; try exact (inv_nd_acc s I); unf.
  - apply nodup_remove_first. exact (inv_nd_acc s I).
  - apply nodup_remove_first. exact (inv_nd_acc s I).
  - rewrite map_app. cbn. apply nodup_snoc; [exact (inv_nd_acc s I)|].
    destruct (accept_facts s k t t' I H H0) as (_ & _ & F). rewrite in_known in F. tauto.
Qed.
Lemma pres_nd_run : NoDup (sy_running s').
Proof.
  destruct Hstep; try exact (inv_nd_run s I); unf.
  - apply find_fst_some in H as [-> H]. apply in_ids in H. constructor; [|exact (inv_nd_run s I)].
    apply (inv_acc_run s I); auto.
  - apply nodup_str_del. exact (inv_nd_run s I).
Qed.
Lemma pres_nd_res : NoDup (res_ids s').
Proof.
  destruct Hstep; try exact (inv_nd_res s I); unf.
  - pose proof (inv_nd_res s I) as N. unf. rewrite H0 in N. inv N; auto.
  - rewrite map_app. cbn. apply nodup_snoc; [exact (inv_nd_res s I)|]. apply str_mem_in in H.
    apply (inv_run_res s I); auto.
  - rewrite map_app. cbn. apply nodup_snoc; [exact (inv_nd_res s I)|]. destruct p as [x t]. apply find_fst_some in H0 as [-> H0].
    apply in_ids in H0. apply (inv_acc_res s I); auto.
  - pose proof (inv_nd_res s I) as N. unf. rewrite H0 in N. inv N; auto.
Qed.
Lemma pres_acc_run : forall id, In id (acc_ids s') -> ~ In id (sy_running s').
Proof.
  destruct Hstep; try exact (inv_acc_run s I); unf; intros z Hz.
  - apply find_fst_some in H as [-> H]. cbn. intros [<-|Hr].
    + revert Hz. apply remove_first_notin. exact (inv_nd_acc s I).
    + apply in_ids_remove_first in Hz. revert Hr. apply (inv_acc_run s I); auto.
  - intros Hr. apply in_str_del in Hr. revert Hr. apply (inv_acc_run s I); auto.
  - apply in_ids_remove_first in Hz. apply (inv_acc_run s I); auto.
  - rewrite map_app, in_app_iff in Hz. cbn in Hz. destruct Hz as [Hz|[<-|[]]]; [apply (inv_acc_run s I); auto|].
    destruct (accept_facts s k t t' I H H0) as (_ & _ & F). rewrite in_known in F. tauto.
Qed.
Lemma pres_acc_res : forall id, In id (acc_ids s') -> ~ In id (res_ids s').
Proof.
  destruct Hstep; try exact (inv_acc_res s I); unf; intros z Hz.
  - intros Hr. pose proof (inv_acc_res s I z Hz) as N. unf. rewrite H0 in N. cbn in N. tauto.
  - apply in_ids_remove_first in Hz. apply (inv_acc_res s I); auto.
  - rewrite map_app, in_app_iff. cbn. intros [Hr|[<-|[]]]; [revert Hr; apply (inv_acc_res s I); auto|].
    apply str_mem_in in H. revert H. apply (inv_acc_run s I); auto.
  - destruct p as [y t]. apply find_fst_some in H0 as [-> H0].
    rewrite map_app, in_app_iff. cbn. intros [Hr|[<-|[]]].
    + apply in_ids_remove_first in Hz. revert Hr. apply (inv_acc_res s I); auto.
    + revert Hz. apply remove_first_notin. exact (inv_nd_acc s I).
  - rewrite map_app, in_app_iff in Hz. cbn in Hz. destruct Hz as [Hz|[<-|[]]]; [apply (inv_acc_res s I); auto|].
    destruct (accept_facts s k t t' I H H0) as (_ & _ & F). rewrite in_known in F. tauto.
  - intros Hr. pose proof (inv_acc_res s I z Hz) as N. unf. rewrite H0 in N. cbn in N. tauto.
Qed.
Lemma pres_run_res : forall id, In id (sy_running s') -> ~ In id (res_ids s').
Proof.
  destruct Hstep; try exact (inv_run_res s I); unf; intros z Hz.
  - intros Hr. pose proof (inv_run_res s I z Hz) as N. unf. rewrite H0 in N. cbn in N. tauto.
  - apply find_fst_some in H as [-> H]. apply in_ids in H. destruct Hz as [<-|Hz].
    + apply (inv_acc_res s I); auto.
    + apply (inv_run_res s I); auto.
  - rewrite map_app, in_app_iff. cbn. intros [Hr|[<-|[]]].
    + apply in_str_del in Hz. revert Hr. apply (inv_run_res s I); auto.
    + revert Hz. apply str_del_notin. exact (inv_nd_run s I).
  - destruct p as [y t]. apply find_fst_some in H0 as [-> H0]. apply in_ids in H0.
    rewrite map_app, in_app_iff. cbn. intros [Hr|[<-|[]]].
    + revert Hr. apply (inv_run_res s I); auto.
    + revert Hz. apply (inv_acc_run s I); auto.
  - intros Hr. pose proof (inv_run_res s I z Hz) as N. unf. rewrite H0 in N. cbn in N. tauto.
Qed.
End Pres.

Lemma boring_td pc : boring pc -> pc_td pc = [].
Proof. destruct pc; cbn; try tauto. destruct st; cbn; tauto. Qed.

Lemma live_ended_frame s s' : SysInv s ->
  (forall id, In id (live s') -> In id (live s)) -> (forall id, In id (ended s') -> In id (ended s)) ->
  forall id, In id (live s') -> ~ In id (ended s').
Proof. intros I A B id H1 H2. apply (inv_live_ended s I id); auto. Qed.


Ltac djs := repeat match goal with H : _ \/ _ |- _ => destruct H as [H|H] end.
Ltac liveinc Hz :=
  rewrite ?map_app, ?in_app_iff in *; cbn [In map fst] in *; rewrite ?in_app_iff in *; djs; subst; auto; try tauto;
  try (apply in_ids_remove_first in Hz; auto; fail); try (apply in_str_del in Hz; auto; fail).

Section Pres2.
Variables (s s' : sys) (l : slabel).
Hypothesis I : SysInv s.
Hypothesis Hstep : sstep s l s'.

Lemma pres_live_ended : forall id, In id (live s') -> ~ In id (ended s').
Proof.
  destruct Hstep; try exact (inv_live_ended s I);
    try (apply (live_ended_frame s _ I); simp_sys; unf; intros z; try (rewrite (boring_td pc') by assumption);
         try destruct (is_err_res x); cbn [pc_td]; rewrite ?app_nil_r, ?in_app_iff; cbn [In]; tauto).
  - apply (live_ended_frame s _ I); unf; intros z; [tauto|]. destruct prev; cbn; rewrite ?app_nil_r, ?in_app_iff; tauto.
  - apply (live_ended_frame s _ I); unf; intros z; [tauto|]. rewrite H. destruct st'; cbn; rewrite ?app_nil_r, ?in_app_iff; cbn; tauto.
  - pose proof (inv_nd_res s I) as N; pose proof (inv_acc_res s I) as AR; pose proof (inv_run_res s I) as RR;
      pose proof (inv_live_ended s I) as LE. unf. rewrite H0 in *. cbn in *. inv N.
    intros z Hz He. rewrite ?app_nil_r in *. rewrite !in_app_iff in *. destruct He as [<-|He].
    + destruct Hz as [Hz|[Hz|Hz]]; [apply (AR _ Hz); left; auto | apply (RR _ Hz); left; auto | tauto].
    + apply (LE z); rewrite ?in_app_iff; cbn; tauto.
  - apply find_fst_some in H as [-> H]. apply in_ids in H.
    apply (live_ended_frame s _ I); unf; intros z; [|tauto]. rewrite !in_app_iff. cbn.
    intros Hz; liveinc Hz.
  - apply str_mem_in in H.
    apply (live_ended_frame s _ I); unf; intros z; [|tauto]. rewrite map_app, !in_app_iff. cbn.
    intros Hz; liveinc Hz.
  - destruct p as [y t]. apply find_fst_some in H0 as [-> H0]. apply in_ids in H0.
    apply (live_ended_frame s _ I); unf; intros z; [|tauto]. rewrite map_app, !in_app_iff. cbn.
    intros Hz; liveinc Hz.
  - destruct (accept_facts s k t t' I H H0) as (_ & _ & F). rewrite in_known in F.
    pose proof (inv_live_ended s I) as LE. unf. rewrite H in *. cbn [pc_td] in *.
    intros z. rewrite map_app, ?app_nil_r, !in_app_iff in *. cbn. intros Hz He.
    apply (LE z); rewrite ?in_app_iff; [|tauto].
    destruct Hz as [[Hz|[<-|[]]]|Hz]; tauto.
  - pose proof (inv_nd_res s I) as N; pose proof (inv_acc_res s I) as AR; pose proof (inv_run_res s I) as RR;
      pose proof (inv_live_ended s I) as LE. unf. rewrite H0, H in *. cbn in *. inv N.
    intros z Hz He. rewrite ?app_nil_r in *. rewrite !in_app_iff in *. cbn in He. destruct He as [He|[<-|[]]].
    + apply (LE z); rewrite ?in_app_iff; cbn; tauto.
    + destruct Hz as [Hz|[Hz|Hz]]; [apply (AR _ Hz); left; auto | apply (RR _ Hz); left; auto | tauto].
  - pose proof (inv_pc s I) as P. rewrite H in P.
    apply (live_ended_frame s _ I); simp_sys; unf; intros z; [tauto|].
    destruct H2 as [->| ->]; cbn; rewrite ?app_nil_r, !in_app_iff; cbn; [tauto|]. intros [Hz|[<-|[]]]; auto.
Qed.
End Pres2.

Section Pres3.
Variables (s s' : sys) (l : slabel).
Hypothesis I : SysInv s.
Hypothesis Hstep : sstep s l s'.

Lemma pres_nd_starts : NoDup (start_ids s').
Proof.
  destruct Hstep; try exact (inv_nd_starts s I); unf.
  apply find_fst_some in H as [-> H]. apply in_ids in H. constructor; [|exact (inv_nd_starts s I)].
  apply (inv_acc_unstarted s I); auto.
Qed.
Lemma pres_run_started : forall id, In id (sy_running s') -> In id (start_ids s').
Proof.
  destruct Hstep; try exact (inv_run_started s I); unf; intros z Hz.
  - destruct Hz as [<-|Hz]; [left; auto | right; apply (inv_run_started s I); auto].
  - apply in_str_del in Hz. apply (inv_run_started s I); auto.
Qed.
Lemma pres_acc_unstarted : forall id, In id (acc_ids s') -> ~ In id (start_ids s').
Proof.
  destruct Hstep; try exact (inv_acc_unstarted s I); unf; intros z Hz.
  - apply find_fst_some in H as [-> H]. intros [<-|Hs].
    + revert Hz. apply remove_first_notin. exact (inv_nd_acc s I).
    + apply in_ids_remove_first in Hz. revert Hs. apply (inv_acc_unstarted s I); auto.
  - apply in_ids_remove_first in Hz. apply (inv_acc_unstarted s I); auto.
  - rewrite map_app, in_app_iff in Hz. cbn in Hz. destruct Hz as [Hz|[<-|[]]]; [apply (inv_acc_unstarted s I); auto|].
    destruct (accept_facts s k t t' I H H0) as (_ & _ & F). rewrite in_known in F. tauto.
Qed.
Lemma pres_starts_snap : forall id n snap, In (id, n, snap) (sy_starts s') -> t_state snap = Dispatched /\ t_id snap = id.
Proof.
  destruct Hstep; try exact (inv_starts_snap s I); unf; intros z n snap Hz.
  destruct Hz as [Hz|Hz]; [|apply (inv_starts_snap s I _ _ _ Hz)]. inv Hz.
  apply find_fst_some in H as [-> H]. pose proof (inv_acc_snap s I _ _ H) as L.
  destruct (inv_live_disp s I z) as (t0 & L0 & D); [apply in_live; left; eapply in_ids; eauto|].
  rewrite L in L0; inv L0. split; auto. eapply lookup_id; eauto.
Qed.
End Pres3.

(* ---------- how the repository moves ---------- *)
Definition sched_op (o : op) : Prop :=
  match o with OAdd _ _ _ _ | OUpdate _ _ _ | OCancel _ _ _ | ODispatch _ _ _ => True | _ => False end.
Lemma sched_op_lifecycle o : sched_op o -> lifecycle_op o.
Proof. destruct o; cbn; try tauto; reflexivity. Qed.

Lemma sstep_repo s l s' : SysInv s -> sstep s l s' ->
  repo_of s' = repo_of s
  \/ (exists op, sched_op op /\ (label_ok s l -> op_ok (repo_of s) op)
                 /\ repo_of s' = fst (step cfg_inmem (repo_of s) op))
  \/ (exists now id e, repo_of s' = fst (step cfg_inmem (repo_of s) (ODone false now id e)) /\ ~ In id (live s')
                        /\ (sy_pc s = PSelect \/ exists o, sy_pc s = PRetryTD id o)).
Proof.
  intros I H. destruct H; try (left; reflexivity); try (left; assumption).
  - right; left. exists op. split; [|split; auto].
    + destruct o; inv H; cbn; auto.
    + destruct o; inv H; cbn; auto.
  - destruct f; unfold disp_eff in H1; destruct H1 as [E _]; [right; left | left; exact E | right; left | left; exact E];
      (exists (ODispatch false (sy_now s) (t_id t)); split; [|split; [|exact E]]; cbn; auto).
  - destruct f; unfold disp_eff in H0; destruct H0 as [E _]; [right; left | left; exact E | right; left | left; exact E];
      (exists (ODispatch false (sy_now s) (t_id t)); split; [|split; [|exact E]]; cbn; auto).
  - assert (NL : ~ In id (live
        {| sy_h := h'; sy_now := sy_now s; sy_last := sy_last s; sy_err := sy_err s;
           sy_pc := PEnd (STaskDone id o (is_err_res x)) false; sy_accepted := sy_accepted s;
           sy_running := sy_running s; sy_results := rest; sy_starts := sy_starts s;
           sy_reports := sy_reports s; sy_retry := sy_retry s |})).
    { pose proof (inv_nd_res s I) as N; pose proof (inv_acc_res s I) as AR; pose proof (inv_run_res s I) as RR.
      unf. rewrite H0 in *. cbn in *. inv N. rewrite !in_app_iff. intros [Hz|[Hz|Hz]]; auto.
      - apply (AR _ Hz); auto. - apply (RR _ Hz); auto. }
    destruct f; unfold done_eff in H3; destruct H3 as [E _]; [right; right | left; exact E | right; right | left; exact E]; eauto 7.
  - assert (NL : ~ In id (live (set_pc (set_h s h') pc'))).
    { pose proof (inv_pc s I) as P. rewrite H in P. intros Hl. apply (inv_live_ended s I id Hl).
      unfold ended. apply in_app_iff; auto. }
    destruct f; unfold done_eff in H0; destruct H0 as [E _]; [right; right | left; exact E | right; right | left; exact E]; eauto 8.
Qed.

Lemma done_lifecycle c n i e : lifecycle_op (ODone c n i e).
Proof. reflexivity. Qed.

Section RepoFacts.
Variables (s s' : sys) (l : slabel).
Hypothesis I : SysInv s.
Hypothesis Hstep : sstep s l s'.

Lemma pres_wf : label_ok s l -> wf_repo (repo_of s').
Proof.
  intros Hok. destruct (sstep_repo s l s' I Hstep) as [E|[(op & So & Ok & E)|(now & id & e & E & _ & _)]]; rewrite E.
  - exact (inv_wf s I).
  - apply step_wf; [exact (inv_wf s I) | auto].
  - apply step_wf; [exact (inv_wf s I) | exact Logic.I].
Qed.

(* a dispatched task the dispatcher still holds is not touched *)
Lemma repo_frozen_disp x t :
  lookup x (repo_of s) = Some t -> t_state t = Dispatched -> In x (live s') -> lookup x (repo_of s') = Some t.
Proof.
  intros L D Hl. pose proof (inv_wf s I) as W.
  destruct (sstep_repo s l s' I Hstep) as [E|[(op & So & Ok & E)|(now & id & e & E & NL & PC)]]; rewrite E; auto.
  - apply step_frozen; auto using sched_op_lifecycle; [congruence|].
    intros ctx now e ->. exact So.
  - apply step_frozen; auto; [reflexivity | congruence|]. intros ctx now0 e0 Eq. inv Eq. auto.
Qed.
(* ended tasks (cancelled / done / err) never change again *)
Lemma repo_frozen_ended x t :
  lookup x (repo_of s) = Some t -> t_state t <> Scheduled -> t_state t <> Dispatched -> lookup x (repo_of s') = Some t.
Proof.
  intros L NS ND. pose proof (inv_wf s I) as W.
  destruct (sstep_repo s l s' I Hstep) as [E|[(op & So & Ok & E)|(now & id & e & E & NL & PC)]]; rewrite E; auto.
  - apply step_frozen_ended; auto using sched_op_lifecycle.
  - apply step_frozen_ended; auto. reflexivity.
Qed.
Lemma repo_claimed x t :
  lookup x (repo_of s) = Some t -> claimed (t_state t) ->
  exists t', lookup x (repo_of s') = Some t' /\ claimed (t_state t').
Proof.
  intros L C. pose proof (inv_wf s I) as W.
  destruct (sstep_repo s l s' I Hstep) as [E|[(op & So & Ok & E)|(now & id & e & E & NL & PC)]]; rewrite E; eauto.
  - apply step_claimed with (t := t); auto using sched_op_lifecycle.
  - apply step_claimed with (t := t); auto. reflexivity.
Qed.
Lemma repo_disp_origin x t' :
  lookup x (repo_of s') = Some t' -> t_state t' = Dispatched ->
  exists t, lookup x (repo_of s) = Some t /\ (t' = t \/ t_state t = Scheduled).
Proof.
  intros L D. pose proof (inv_wf s I) as W.
  destruct (sstep_repo s l s' I Hstep) as [E|[(op & So & Ok & E)|(now & id & e & E & NL & PC)]]; rewrite E in L; eauto.
  - destruct (step_disp_origin _ _ _ _ _ W (sched_op_lifecycle _ So) L D) as (t & L0 & [->|[S _]]); eauto.
  - destruct (step_disp_origin cfg_inmem _ _ _ _ W (done_lifecycle _ _ _ _) L D) as (t & L0 & [->|[S _]]); eauto.
Qed.
(* tasks never disappear *)
Lemma repo_keeps x t : lookup x (repo_of s) = Some t -> exists t', lookup x (repo_of s') = Some t'.
Proof.
  intros L. pose proof (inv_wf s I) as W.
  destruct (sstep_repo s l s' I Hstep) as [E|[(op & So & Ok & E)|(now & id & e & E & NL & PC)]]; rewrite E; eauto.
  - pose proof (step_id_created_immutable cfg_inmem _ op x t W L) as K.
    destruct op; try contradiction; destruct K as (t' & K & _); eauto.
  - destruct (step_id_created_immutable cfg_inmem _ (ODone false now id e) x t W L) as (t' & K & _); eauto.
Qed.

End RepoFacts.

(* the dispatcher's lists only grow by the fetch of a dispatched task in the worker *)
Definition is_accept (s s' : sys) (x : string) : Prop :=
  exists k t t', sy_pc s = PDisp2 k t /\ lookup (t_id t) (repo_of s) = Some t' /\ x = t_id t'
                 /\ repo_of s' = repo_of s /\ sy_accepted s' = sy_accepted s ++ [(t_id t', t')]
                 /\ sy_pc s' = PEnd (SDispatched x) false.
Lemma live_mono s l s' x : sstep s l s' -> In x (live s') -> In x (live s) \/ is_accept s s' x.
Proof.
  intros Hstep. destruct Hstep; try (left; assumption); unf; intros Hz.
  - left. rewrite H0. cbn. liveinc Hz.
  - left. apply find_fst_some in H as [-> H]. apply in_ids in H. liveinc Hz.
  - left. apply str_mem_in in H. liveinc Hz.
  - left. destruct p as [y t]. apply find_fst_some in H0 as [-> H0]. apply in_ids in H0. liveinc Hz.
  - rewrite map_app, !in_app_iff in Hz. cbn in Hz. rewrite !in_app_iff.
    destruct Hz as [[Hz|[<-|[]]]|Hz]; auto. right. exists k, t, t'. auto 7.
  - left. rewrite H0. cbn. liveinc Hz.
Qed.
Lemma known_mono s l s' x : SysInv s -> sstep s l s' -> In x (known s') -> In x (known s) \/ is_accept s s' x.
Proof.
  intros I Hstep Hk. unfold known in Hk. rewrite !in_app_iff in Hk. destruct Hk as [Hk|[Hk|Hk]].
  - apply (live_mono s l) in Hk; auto. destruct Hk; auto. left. unfold known. rewrite !in_app_iff; auto.
  - left. rewrite in_known. revert Hk. clear I. destruct Hstep; unf; auto 7.
    intros [<-|Hk]; auto 7. apply find_fst_some in H as [-> H]. apply in_ids in H. auto.
  - left. rewrite in_known. revert Hk. pose proof (inv_pc s I) as P. destruct Hstep; simp_sys; unf;
      try rewrite (boring_td pc') by assumption; rewrite ?app_nil_r, ?in_app_iff; cbn [In]; auto 7; try tauto.
    + destruct prev; cbn; tauto.
    + rewrite H. destruct st'; cbn; tauto.
    + rewrite H0. cbn. intros Hk; djs; subst; auto 7; tauto.
    + destruct (is_err_res x0); cbn; tauto.
    + destruct (is_err_res x0); cbn; tauto.
    + rewrite H0. cbn. intros Hk; djs; subst; auto 7; tauto.
    + rewrite H in P. destruct H2 as [->| ->]; cbn; [tauto|]. intros Hk; djs; subst; auto 7; tauto.
Qed.

Lemma repo_frozen_nodone s l s' x t :
  SysInv s -> sstep s l s' ->
  lookup x (repo_of s) = Some t -> t_state t <> Scheduled ->
  sy_pc s <> PSelect -> (forall id o, sy_pc s <> PRetryTD id o) ->
  lookup x (repo_of s') = Some t.
Proof.
  intros I Hstep L D P1 P2. pose proof (inv_wf s I) as W.
  destruct (sstep_repo s l s' I Hstep) as [E|[(op & So & Ok & E)|(now & id & e & E & NL & PC)]]; rewrite E; auto.
  - apply step_frozen; auto using sched_op_lifecycle. intros ctx now e ->. exact So.
  - destruct PC as [PC|[o PC]]; [tauto | exfalso; eapply P2; eauto].
Qed.

Lemma acc_mono s l s' p :
  sstep s l s' -> In p (sy_accepted s') ->
  In p (sy_accepted s) \/
  exists k t t', sy_pc s = PDisp2 k t /\ lookup (t_id t) (repo_of s) = Some t' /\ p = (t_id t', t') /\ repo_of s' = repo_of s.
Proof.
  intros Hstep. destruct Hstep; try (left; assumption); unf; intros Hz.
  - left. eapply in_remove_first; eauto.
  - left. eapply in_remove_first; eauto.
  - apply in_app_iff in Hz. cbn in Hz. destruct Hz as [Hz|[<-|[]]]; auto. right. exists k, t, t'. auto.
Qed.
Lemma reports_mono s l s' x : sstep s l s' -> In x (sy_reports s) -> In x (sy_reports s').
Proof.
  intros Hstep. destruct Hstep; simp_sys; auto.
  - destruct st'; cbn; auto.
  - cbn; auto.
Qed.

Lemma fresh_stable s l s' x :
  SysInv s -> sstep s l s' -> fresh_disp s x -> ~ is_accept s s' x -> fresh_disp s' x.
Proof. intros I H F NA Hk. destruct (known_mono s l s' x I H Hk); auto. Qed.

Lemma not_accept_pc s s' x : (forall k t, sy_pc s = PDisp2 k t -> t_id t <> x) -> ~ is_accept s s' x.
Proof.
  intros H (k & t & t' & P & L & -> & _). apply (H k t P). symmetry. eapply lookup_id; eauto.
Qed.

Lemma CF_stable s l s' x :
  SysInv s -> sstep s l s' -> ~ is_accept s s' x -> CF s x -> CF s' x.
Proof.
  intros I H NA C t' L' D'.
  destruct (repo_disp_origin s s' l I H x t' L' D') as (t0 & L0 & [->|S]).
  - eapply fresh_stable; eauto.
  - eapply fresh_stable; eauto. intros Hk. destruct (inv_known s I x Hk) as (t1 & L1 & [C1|[C1|C1]]); congruence.
Qed.

Section Pres6.
Variables (s s' : sys) (l : slabel).
Hypothesis I : SysInv s.
Hypothesis Hstep : sstep s l s'.

Lemma pres_live_disp : forall id, In id (live s') -> stored (fun st => st = Dispatched) s' id.
Proof.
  intros x Hx. destruct (live_mono s l s' x Hstep Hx) as [Hl|(k & t & t' & P & L & -> & E & _)].
  - destruct (inv_live_disp s I x Hl) as (t & L & D). exists t. split; auto. eapply repo_frozen_disp; eauto.
  - destruct (accept_facts s k t t' I P L) as (Ei & D & _). exists t'. rewrite E, Ei. auto.
Qed.
Lemma pres_acc_snap : forall id t, In (id, t) (sy_accepted s') -> lookup id (repo_of s') = Some t.
Proof.
  intros x t Hx. destruct (acc_mono s l s' _ Hstep Hx) as [Ha|(k & t0 & t' & P & L & Eq & E)].
  - pose proof (inv_acc_snap s I x t Ha) as L.
    destruct (inv_live_disp s I x) as (t1 & L1 & D); [apply in_live; left; eapply in_ids; eauto|].
    rewrite L in L1; inv L1. eapply repo_frozen_disp; eauto. apply in_live. left. eapply in_ids; eauto.
  - injection Eq as -> ->. destruct (accept_facts s k t0 t' I P L) as (Ei & D & _). rewrite E, Ei. auto.
Qed.
Lemma pres_known : forall id, In id (known s') -> stored claimed s' id.
Proof.
  intros x Hx. destruct (known_mono s l s' x I Hstep Hx) as [Hk|(k & t & t' & P & L & -> & E & _)].
  - destruct (inv_known s I x Hk) as (t & L & C). eapply repo_claimed; eauto.
  - destruct (accept_facts s k t t' I P L) as (Ei & D & _). exists t'. rewrite E, Ei. split; auto. left; auto.
Qed.
Lemma pres_retry_idle : sy_pc s' <> PIdle -> sy_retry s' = None.
Proof.
  pose proof (inv_retry_idle s I) as R.
  destruct Hstep; simp_sys; auto; try tauto; intros _; apply R; congruence.
Qed.
End Pres6.

Definition pc_prop (s : sys) (pc : spc) : Prop :=
  match pc with
  | PFire2 t | PDisp1 _ t | PRetryDE t | PEnd (SDispatchErr t) _ => CF s (t_id t)
  | PDisp2 _ t => stored (fun st => st = Dispatched) s (t_id t) /\ fresh_disp s (t_id t)
  | PRetryTD id _ => In id (sy_reports s)
  | _ => True
  end.

Lemma not_accept_nopc s s' x : (forall k t, sy_pc s <> PDisp2 k t) -> ~ is_accept s s' x.
Proof. intros H (k & t & t' & P & _). eapply H; eauto. Qed.

Lemma pc_prop_keep s l s' :
  SysInv s -> sstep s l s' -> sy_pc s' = sy_pc s -> pc_prop s' (sy_pc s).
Proof.
  intros I H E. pose proof (inv_pc s I) as P. fold (pc_prop s (sy_pc s)) in P.
  assert (NA : forall x, (forall k t, sy_pc s <> PDisp2 k t) -> ~ is_accept s s' x) by (intros; apply not_accept_nopc; auto).
  destruct (sy_pc s) eqn:Q; cbn in *; auto;
    try (eapply CF_stable; eauto; apply NA; intros; discriminate).
  - destruct P as [(t0 & L & D) F].
    assert (~ is_accept s s' (t_id t)).
    { intros (k0 & t1 & t' & _ & _ & _ & _ & _ & P'). rewrite E in P'. discriminate. }
    split; [|eapply fresh_stable; eauto].
    exists t0. split; auto. eapply repo_frozen_nodone; eauto; try congruence.
  - eapply reports_mono; eauto.
  - destruct st; auto. eapply CF_stable; eauto; apply NA; intros; discriminate.
Qed.

Lemma sched_fresh s x t : SysInv s -> lookup x (repo_of s) = Some t -> t_state t = Scheduled -> fresh_disp s x.
Proof. intros I L S Hk. destruct (inv_known s I x Hk) as (t1 & L1 & [C|[C|C]]); congruence. Qed.
Lemma sched_CF s x t : lookup x (repo_of s) = Some t -> t_state t <> Dispatched -> CF s x.
Proof. intros L S t' L' D. congruence. Qed.
Lemma fresh_CF s x : fresh_disp s x -> CF s x.
Proof. intros F t _ _. exact F. Qed.

(* what a MarkAsDispatched that reported success did *)
Lemma disp_eff_ok s f now id r' x :
  wf_repo (repo_of s) -> disp_eff f (repo_of s) now id r' x -> is_err_res x = false ->
  exists t, lookup id (repo_of s) = Some t /\ t_state t = Scheduled /\ lookup id r' = Some (set_dispatched t now).
Proof.
  intros W E X. destruct f; cbn in E; destruct E as [-> ->]; try discriminate.
  apply dispatch_ok; auto.
Qed.

Section Pres7.
Variables (s s' : sys) (l : slabel).
Hypothesis I : SysInv s.
Hypothesis Hstep : sstep s l s'.

Lemma pres_pc : pc_prop s' (sy_pc s').
Proof.
  pose proof (pc_prop_keep s l s' I Hstep) as Keep.
  pose proof (CF_stable s l s') as CFS. pose proof (fresh_stable s l s') as FS.
  pose proof (inv_pc s I) as P. fold (pc_prop s (sy_pc s)) in P.
  assert (NA : forall x, (forall k t, sy_pc s <> PDisp2 k t) -> ~ is_accept s s' x) by (intros; apply not_accept_nopc; auto).
  destruct Hstep; simp_sys; try (apply Keep; reflexivity); try exact Logic.I.
  - (* Retry begins *)
    pose proof (inv_retry s I) as R. rewrite H in R.
    destruct prev; cbn; auto; destruct p; try discriminate; cbn in H0.
    + apply String.eqb_eq in H0. rewrite <- H0. eapply CFS; eauto. apply NA; intros; rewrite H1; discriminate.
    + apply andb_true_iff in H0 as [H0 _]. apply andb_true_iff in H0 as [H0 _]. apply String.eqb_eq in H0. subst. exact R.
  - unfold boring, boring_state in H2. destruct pc'; try tauto; cbn; try tauto. destruct st; tauto.
  - (* Step: MarkAsDispatched *)
    pose proof Hstep as Hs. revert Hs. destruct (is_err_res x) eqn:X; intros Hs; cbn.
    + eapply CFS; eauto; [apply NA; intros; rewrite H; discriminate | apply (inv_last s I t H0)].
    + destruct (disp_eff_ok s f _ _ _ x (inv_wf s I) H1 X) as (t0 & L0 & S0 & L1). split.
      * exists (set_dispatched t0 (sy_now s)). split; [exact L1 | reflexivity].
      * eapply FS; [exact I | exact Hs | eapply sched_fresh; eauto | apply NA; intros; rewrite H; discriminate].
  - (* Retry: MarkAsDispatched *)
    rewrite H in P. cbn in P.
    pose proof Hstep as Hs. revert Hs. destruct (is_err_res x) eqn:X; intros Hs; cbn.
    + eapply CFS; eauto. apply NA; intros; rewrite H; discriminate.
    + destruct (disp_eff_ok s f _ _ _ x (inv_wf s I) H0 X) as (t0 & L0 & S0 & L1). split.
      * exists (set_dispatched t0 (sy_now s)). split; [exact L1 | reflexivity].
      * eapply FS; [exact I | exact Hs | eapply sched_fresh; eauto | apply NA; intros; rewrite H; discriminate].
  - rewrite H in P. destruct P as [_ F]. cbn. apply fresh_CF. eapply FS; eauto.
    intros (? & ? & ? & _ & _ & _ & _ & _ & P'). cbn in P'. discriminate.
  - cbn. eapply CFS; eauto; [apply NA; intros; rewrite H; discriminate|].
    apply get_next_min in H0. destruct H0 as (Hin & Sc & _). apply (wf_in_lookup _ _ (inv_wf s I)) in Hin.
    eapply sched_CF; eauto. apply state_eqb_eq in Sc. congruence.
  - rewrite H in P. cbn in *. rewrite (lookup_id _ _ _ H0). eapply CFS; eauto. apply NA; intros; rewrite H; discriminate.
  - rewrite H in P. cbn in *. pose proof (P t' H0 H1) as F. rewrite (lookup_id _ _ _ H0). split.
    + exists t'. split; auto.
    + eapply FS; eauto. apply NA; intros; rewrite H; discriminate.
  - rewrite H in P. cbn in *. eapply CFS; eauto. apply NA; intros; rewrite H; discriminate.
  - destruct H2 as [->| ->]; exact Logic.I.
Qed.
End Pres7.

Definition retry_prop (s : sys) (r : option sstate) : Prop :=
  match r with
  | Some (SDispatchErr t) => CF s (t_id t)
  | Some (STaskDone id _ _) => In id (sy_reports s)
  | _ => True
  end.

Lemma retry_prop_keep s l s' :
  SysInv s -> sstep s l s' -> retry_prop s' (sy_retry s).
Proof.
  intros I H. pose proof (inv_retry s I) as R. fold (retry_prop s (sy_retry s)) in R.
  pose proof (inv_retry_idle s I) as RI.
  destruct (sy_retry s) as [[]|] eqn:Q; cbn in *; auto.
  - eapply CF_stable; eauto. apply not_accept_nopc. intros k t0 P. rewrite P in RI. discriminate RI. discriminate.
  - eapply reports_mono; eauto.
Qed.

Section Pres8.
Variables (s s' : sys) (l : slabel).
Hypothesis I : SysInv s.
Hypothesis Hstep : sstep s l s'.

Lemma pres_retry : retry_prop s' (sy_retry s').
Proof.
  pose proof (retry_prop_keep s l s' I Hstep) as Keep.
  pose proof (CF_stable s l s') as CFS.
  pose proof (inv_pc s I) as P. fold (pc_prop s (sy_pc s)) in P.
  destruct Hstep; simp_sys; try exact Keep; try exact Logic.I.
  (* a Step / Retry returned *)
  rewrite H in P. destruct st'; cbn in *; auto.
  - destruct ok; cbn; auto.
  - eapply CFS; eauto. apply not_accept_nopc. intros; rewrite H; discriminate.
  - destruct upd_err; cbn; auto.
Qed.

Lemma pres_last : forall t, sy_last s' = Some t ->
  ~ de_pc (sy_pc s') /\ (forall t', sy_retry s' <> Some (SDispatchErr t')) /\ CF s' (t_id t).
Proof.
  pose proof (CF_stable s l s') as CFS.
  pose proof (inv_last s I) as L. pose proof (inv_retry_idle s I) as RI.
  pose proof (inv_pc s I) as P. fold (pc_prop s (sy_pc s)) in P.
  assert (NA : forall x, ~ de_pc (sy_pc s) -> ~ is_accept s s' x).
  { intros x N. apply not_accept_nopc. intros k t0 E. rewrite E in N. apply N. exact Logic.I. }
  destruct Hstep; simp_sys; intros t0 Hl;
    try (destruct (L t0 Hl) as (L1 & L2 & L3); split; [exact L1 | split; [exact L2 | eapply CFS; eauto]]; fail).
  - destruct (L t0 Hl) as (L1 & L2 & L3). split; [cbn; tauto | split; [discriminate | eapply CFS; eauto]].
  - destruct (L t0 Hl) as (L1 & L2 & L3). split; [|split; [discriminate | eapply CFS; eauto]].
    destruct prev; cbn; try tauto. destruct p; try discriminate. intros _. eapply L2; eauto.
  - destruct (L t0 Hl) as (L1 & L2 & L3). rewrite H in L1. split; [cbn; tauto | split; [| eapply CFS; eauto; apply NA; rewrite H; exact L1]].
    intros t'. destruct st'; cbn in *; try discriminate; try tauto. + destruct ok; discriminate. + destruct upd_err; discriminate.
  - destruct (L t0 Hl) as (L1 & L2 & L3). exfalso; apply L1; rewrite H; exact Logic.I.
  - destruct (L t0 Hl) as (L1 & L2 & L3). exfalso; apply L1; rewrite H; exact Logic.I.
  - assert (Hl' : sy_last s = Some t0) by (destruct H3 as [<-|E]; [auto | congruence]).
    destruct (L t0 Hl') as (L1 & L2 & L3). split; [|split; [exact L2 | eapply CFS; eauto]].
    destruct H4 as [E|[E1 E2]]; [congruence|]. unfold boring, boring_state in H2.
    destruct pc'; cbn; try tauto. destruct st; tauto.
  - discriminate.
  - destruct (L t0 Hl) as (L1 & L2 & L3). exfalso; apply L1; rewrite H; exact Logic.I.
  - destruct (L t0 Hl) as (L1 & L2 & L3). exfalso; apply L1; rewrite H; exact Logic.I.
  - destruct (L t0 Hl) as (L1 & L2 & L3). exfalso; apply L1; rewrite H; exact Logic.I.
  - destruct (L t0 Hl) as (L1 & L2 & L3). exfalso; apply L1; rewrite H; exact Logic.I.
  - inv Hl. rewrite H in P. cbn in P. split; [cbn; tauto | split].
    + rewrite RI; [discriminate | rewrite H; discriminate].
    + eapply CFS; eauto. apply not_accept_nopc. intros; rewrite H; discriminate.
  - destruct (L t0 Hl) as (L1 & L2 & L3). exfalso; apply L1; rewrite H; exact Logic.I.
  - destruct (L t0 Hl) as (L1 & L2 & L3). exfalso; apply L1; rewrite H; exact Logic.I.
  - destruct (L t0 Hl) as (L1 & L2 & L3). exfalso; apply L1; rewrite H; exact Logic.I.
  - destruct (L t0 Hl) as (L1 & L2 & L3). exfalso; apply L1; rewrite H; exact Logic.I.
  - destruct (L t0 Hl) as (L1 & L2 & L3). split; [|split; [exact L2 | eapply CFS; eauto]].
    destruct H2 as [->| ->]; cbn; tauto.
Qed.
End Pres8.

(* ================================================================================================ *)
(* A. the invariant is inductive                                                                     *)
(* ================================================================================================ *)
Theorem SysInv_sstep s l s' : SysInv s -> label_ok s l -> sstep s l s' -> SysInv s'.
Proof.
  intros I Hok H. constructor.
  - eapply pres_wf; eauto.
  - eapply pres_nd_acc; eauto.
  - eapply pres_nd_run; eauto.
  - eapply pres_nd_res; eauto.
  - eapply pres_acc_run; eauto.
  - eapply pres_acc_res; eauto.
  - eapply pres_run_res; eauto.
  - eapply pres_live_ended; eauto.
  - eapply pres_nd_starts; eauto.
  - eapply pres_run_started; eauto.
  - eapply pres_acc_unstarted; eauto.
  - eapply pres_starts_snap; eauto.
  - eapply pres_live_disp; eauto.
  - eapply pres_acc_snap; eauto.
  - eapply pres_known; eauto.
  - eapply pres_retry_idle; eauto.
  - exact (pres_pc s s' l I H).
  - exact (pres_retry s s' l I H).
  - eapply pres_last; eauto.
Qed.

Theorem SysInv_step s l s' : SysInv s -> label_ok s l -> sstepf s l = Some s' -> SysInv s'.
Proof. intros I Hok H. eapply SysInv_sstep; eauto. apply sstepf_sstep; auto. Qed.

Theorem SysInv_run tr : forall s s', SysInv s -> srun s tr = Some s' -> srun_ok s tr -> SysInv s'.
Proof.
  induction tr as [|l r IH]; cbn; intros s s' I H Hok.
  - inv H. auto.
  - destruct Hok as [Hl Hr]. fold (sstepf s l) in *. destruct (sstepf s l) as [s1|] eqn:E; [|discriminate].
    apply (IH s1 s'); auto. eapply SysInv_step; eauto.
Qed.

Theorem reachable_inv s : reachable s -> SysInv s.
Proof. intros (tr & H & Hok). eapply SysInv_run; eauto. apply SysInv_init. Qed.

(* A1 *)
Theorem reachable_wf s : reachable s -> wf_repo (repo_of s).
Proof. intros R. apply inv_wf. apply reachable_inv; auto. Qed.

(* A2 *)
Theorem reachable_claimed s id :
  reachable s -> In id (acc_ids s) \/ In id (sy_running s) \/ In id (start_ids s) ->
  exists t, lookup id (repo_of s) = Some t /\ (t_state t = Dispatched \/ t_state t = Done \/ t_state t = Err)
            /\ t_state t <> Scheduled /\ t_state t <> Cancelled.
Proof.
  intros R H. apply reachable_inv in R. destruct (inv_known s R id) as (t & L & C).
  - rewrite in_known. tauto.
  - exists t. split; auto. split; auto. destruct C as [C|[C|C]]; rewrite C; split; discriminate.
Qed.
Theorem reachable_active_dispatched s id :
  reachable s -> In id (acc_ids s) \/ In id (sy_running s) ->
  exists t, lookup id (repo_of s) = Some t /\ t_state t = Dispatched.
Proof.
  intros R H. apply reachable_inv in R. apply (inv_live_disp s R id). rewrite in_live. tauto.
Qed.

(* A3 *)
Theorem reachable_exclusive s :
  reachable s ->
  NoDup (acc_ids s) /\ NoDup (sy_running s) /\ NoDup (res_ids s)
  /\ (forall id, In id (acc_ids s) -> ~ In id (sy_running s))
  /\ (forall id, In id (acc_ids s) -> ~ In id (res_ids s) /\ ~ In id (sy_reports s))
  /\ (forall id, In id (sy_running s) -> ~ In id (res_ids s) /\ ~ In id (sy_reports s))
  /\ (forall id, In id (res_ids s) -> ~ In id (sy_reports s)).
Proof.
  intros R. apply reachable_inv in R.
  assert (E : forall id, In id (live s) -> ~ In id (sy_reports s)).
  { intros id H Hr. apply (inv_live_ended s R id H). unfold ended. apply in_app_iff; auto. }
  split; [exact (inv_nd_acc s R)|]. split; [exact (inv_nd_run s R)|]. split; [exact (inv_nd_res s R)|].
  split; [exact (inv_acc_run s R)|].
  split; [intros id H; split; [apply (inv_acc_res s R); auto | apply E; rewrite in_live; tauto]|].
  split; [intros id H; split; [apply (inv_run_res s R); auto | apply E; rewrite in_live; tauto]|].
  intros id H. apply E. rewrite in_live; tauto.
Qed.

(* ================================================================================================ *)
(* B. C04                                                                                            *)
(* ================================================================================================ *)
(* B1: a work function starts at most once per task *)
Theorem starts_nodup s : reachable s -> NoDup (map (fun x => fst (fst x)) (sy_starts s)).
Proof. intros R. apply reachable_inv in R. exact (inv_nd_starts s R). Qed.

(* B2: every start is of a task that is stored as dispatched at that moment, and is handed the stored task *)
Theorem start_dispatched s id n snap s' :
  reachable s -> sstepf s (LWorkStart id n snap) = Some s' ->
  t_state snap = Dispatched /\ lookup id (repo_of s) = Some snap /\ t_id snap = id /\ n = sy_now s
  /\ ~ In id (start_ids s).
Proof.
  intros R H. apply reachable_inv in R. apply sstepf_sstep in H. inv H.
  match goal with F : List.find _ _ = Some _ |- _ => apply find_fst_some in F as [-> H1] end.
  pose proof (inv_acc_snap s R _ _ H1) as L.
  destruct (inv_live_disp s R id) as (t0 & L0 & D); [apply in_live; left; eapply in_ids; eauto|].
  rewrite L in L0; inv L0. repeat split; auto. - eapply lookup_id; eauto.
  - apply (inv_acc_unstarted s R). eapply in_ids; eauto.
Qed.

(* reachability is closed under (side-condition respecting) runs *)
Lemma reachable_run s tr s' : reachable s -> srun s tr = Some s' -> srun_ok s tr -> reachable s'.
Proof.
  intros (tr0 & H0 & Ok0) H Ok. exists (tr0 ++ tr). unfold srun, srun_ok in *. split.
  - rewrite sys_run_app, H0. exact H.
  - rewrite (sys_run_ok_app _ _ _ _ _ _ H0). auto.
Qed.
Lemma reachable_step s l s' : reachable s -> label_ok s l -> sstepf s l = Some s' -> reachable s'.
Proof.
  intros R Ok H. apply (reachable_run s [l] s' R).
  - unfold srun; cbn. fold (sstepf s l). rewrite H. reflexivity.
  - unfold srun_ok; cbn. fold (sstepf s l). rewrite H. auto.
Qed.

(* a task in an end state (cancelled / done / err) stays exactly as it is *)
Lemma ended_stays tr : forall s s' id t,
  SysInv s -> srun s tr = Some s' -> srun_ok s tr ->
  lookup id (repo_of s) = Some t -> t_state t <> Scheduled -> t_state t <> Dispatched ->
  lookup id (repo_of s') = Some t.
Proof.
  induction tr as [|l r IH]; cbn; intros s s' id t I H Ok L NS ND.
  - inv H. auto.
  - destruct Ok as [Hl Hr]. fold (sstepf s l) in *. destruct (sstepf s l) as [s1|] eqn:E; [|discriminate].
    apply (IH s1 s' id t); auto.
    + eapply SysInv_step; eauto.
    + exact (repo_frozen_ended s s1 l I (sstepf_sstep s l s1 E) id t L NS ND).
Qed.

Lemma user_cancel_ok s f n id s1 :
  SysInv s -> sstepf s (LUser (HCancel f n id) ROk) = Some s1 ->
  exists t, lookup id (repo_of s1) = Some t /\ t_state t = Cancelled.
Proof.
  intros I H. apply sstepf_sstep in H. inv H.
  match goal with E : hop_op _ = Some _ |- _ => cbn in E; inv E end.
  match goal with E : res_eqb _ ROk = true |- _ => apply res_eqb_eq in E; rename E into R end.
  destruct (cancel_ok _ _ _ (inv_wf s I) R) as (t & L & S & L').
  exists (set_cancelled t n). split; [|reflexivity].
  unfold repo_of at 1. cbn [set_h sy_h].
  match goal with E : hs_repo _ = _ |- _ => rewrite E end. exact L'.
Qed.

(* B3: never after cancellation *)
Theorem no_start_after_cancel s f n id s1 tr s2 n' snap :
  reachable s -> sstepf s (LUser (HCancel f n id) ROk) = Some s1 ->
  srun s1 tr = Some s2 -> srun_ok s1 tr ->
  sstepf s2 (LWorkStart id n' snap) = None.
Proof.
  intros R H Hr Ok. pose proof (reachable_inv s R) as I.
  assert (R1 : reachable s1) by (eapply reachable_step; eauto; exact Logic.I).
  pose proof (reachable_inv s1 R1) as I1.
  destruct (user_cancel_ok s f n id s1 I H) as (t & L & C).
  assert (L2 : lookup id (repo_of s2) = Some t) by (eapply ended_stays; eauto; congruence).
  destruct (sstepf s2 (LWorkStart id n' snap)) as [s3|] eqn:E; auto.
  assert (R2 : reachable s2) by (eapply reachable_run; eauto).
  destruct (start_dispatched s2 id n' snap s3 R2 E) as (D & L3 & _). congruence.
Qed.

(* ---------- B4: the executable predicate ---------- *)
Definition took_effect (f : fault) (x : cret) : bool :=
  match f, x with FNone, RRes ROk => true | FAfter, _ => true | _, _ => false end.
Definition walk_st (l : slabel) (st : list string) : list string :=
  match l with LWorkStart id _ _ => id :: st | _ => st end.
Definition walk_ca (l : slabel) (ca : list string) : list string :=
  match l with LUser (HCancel _ _ id) ROk => id :: ca | _ => ca end.
Definition walk_ma (l : slabel) (ma : list string) : list string :=
  match l with LCall (CMarkDisp id) f _ x => if took_effect f x then id :: ma else ma | _ => ma end.
Definition walk_check (l : slabel) (st ca ma : list string) : bool :=
  match l with
  | LWorkStart id _ snap =>
    negb (str_mem id st) && negb (str_mem id ca) && str_mem id ma && state_eqb (t_state snap) Dispatched
  | _ => true
  end.

Lemma c04_walk_cons l r st ca ma :
  c04_walk (l :: r) st ca ma = walk_check l st ca ma && c04_walk r (walk_st l st) (walk_ca l ca) (walk_ma l ma).
Proof.
  destruct l as [o x| | | |c f hf x| | | | | |]; try reflexivity.
  - destruct o; try reflexivity. destruct x; reflexivity.
  - destruct c; reflexivity.
Qed.

Lemma walk_ca_in l ca id : In id (walk_ca l ca) -> In id ca \/ exists f n, l = LUser (HCancel f n id) ROk.
Proof.
  destruct l as [o x| | | | | | | | | |]; cbn; auto. destruct o; cbn; auto. destruct x; cbn; auto.
  intros [<-|H]; eauto.
Qed.
Lemma walk_ma_mono l ma id : In id ma -> In id (walk_ma l ma).
Proof.
  destruct l as [| | | |c f hf x| | | | | |]; cbn; auto. destruct c; cbn; auto. destruct (took_effect f x); cbn; auto.
Qed.

Lemma dispatch_sched_res r now id t :
  lookup id r = Some t -> t_state t = Scheduled -> snd (step cfg_inmem r (ODispatch false now id)) = ROk.
Proof. intros L S. cbn [step]. rewrite L. unfold guarded. rewrite S. reflexivity. Qed.

(* a task becomes dispatched only by a MarkAsDispatched call that took effect *)
Lemma disp_origin_label s l s' x t' :
  SysInv s -> sstep s l s' -> lookup x (repo_of s') = Some t' -> t_state t' = Dispatched ->
  lookup x (repo_of s) = Some t' \/
  exists f hf r, l = LCall (CMarkDisp x) f hf r /\ took_effect f r = true.
Proof.
  intros I H L D. pose proof (inv_wf s I) as W.
  assert (G : forall op, lifecycle_op op -> (forall c n, op <> ODispatch c n x) ->
              repo_of s' = fst (step cfg_inmem (repo_of s) op) -> lookup x (repo_of s) = Some t').
  { intros op Lo Nd E. rewrite E in L.
    destruct (step_disp_origin _ _ _ _ _ W Lo L D) as (t & L0 & [->|(_ & c & n & -> & _)]); auto.
    exfalso; eapply Nd; eauto. }
  assert (GD : forall f id r' xr, disp_eff f (repo_of s) (sy_now s) id r' xr -> repo_of s' = r' ->
               forall hf r, cret_eqb r (RRes xr) = true -> l = LCall (CMarkDisp id) f hf r ->
               lookup x (repo_of s) = Some t' \/ exists f hf r, l = LCall (CMarkDisp x) f hf r /\ took_effect f r = true).
  { intros f id r' xr E Er hf r Cr El. apply cret_eqb_res in Cr. subst r.
    assert (Lc : lifecycle_op (ODispatch false (sy_now s) id)) by reflexivity.
    destruct f; unfold disp_eff in E; destruct E as [E1 E2].
    - rewrite Er, E1 in L.
      destruct (step_disp_origin _ _ _ _ _ W Lc L D) as (t & L0 & [->|(S & c & n & Eq & _)]); auto.
      assert (id = x) by congruence. subst id.
      assert (Hx : xr = ROk) by (rewrite E2; eapply dispatch_sched_res; eauto). rewrite Hx in El.
      right. exists FNone, hf, (RRes ROk). split; [exact El | reflexivity].
    - left. congruence.
    - rewrite Er, E1 in L.
      destruct (step_disp_origin _ _ _ _ _ W Lc L D) as (t & L0 & [->|(S & c & n & Eq & _)]); auto.
      assert (id = x) by congruence. subst id.
      right. exists FAfter, hf, (RRes xr). split; [exact El | reflexivity].
    - left. congruence. }
  destruct H; unfold repo_of in *; unfold set_h, set_pc, set_sched, accept_task in *; cbn [sy_h hs_repo] in *;
    try (left; congruence).
  - (* user *)
    left. apply (G op).
    + destruct o; inv H; reflexivity.
    + intros c n ->. destruct o; inv H. eapply H0; eauto.
    + exact H1.
  - eapply GD; eauto.
  - eapply GD; eauto.
  - (* MarkAsDone *)
    left. destruct f; unfold done_eff in H3; destruct H3 as [E1 _]; try congruence.
    + apply (G (ODone false (sy_now s) id e)); auto; [reflexivity | discriminate].
    + apply (G (ODone false (sy_now s) id e)); auto; [reflexivity | discriminate].
  - left. destruct f; unfold done_eff in H0; destruct H0 as [E1 _]; try congruence.
    + apply (G (ODone false (sy_now s) id (outcome_err o))); auto; [reflexivity | discriminate].
    + apply (G (ODone false (sy_now s) id (outcome_err o))); auto; [reflexivity | discriminate].
Qed.

(* the accumulators of c04_walk versus the monitor state *)
Definition walk_inv (s : sys) (st ca ma : list string) : Prop :=
  st = start_ids s
  /\ (forall id, In id ca -> stored (fun x => x = Cancelled) s id)
  /\ (forall id t, lookup id (repo_of s) = Some t -> t_state t = Dispatched -> In id ma).

Lemma sstep_start_ids s l s' : sstep s l s' -> start_ids s' = walk_st l (start_ids s).
Proof. intros H. destruct H; reflexivity. Qed.

Lemma walk_inv_step s l s' st ca ma :
  SysInv s -> label_ok s l -> sstepf s l = Some s' -> walk_inv s st ca ma ->
  walk_inv s' (walk_st l st) (walk_ca l ca) (walk_ma l ma).
Proof.
  intros I Ok H (W1 & W2 & W3). pose proof (sstepf_sstep s l s' H) as Hs. split; [|split].
  - rewrite (sstep_start_ids s l s' Hs), W1. reflexivity.
  - intros id Hin. apply walk_ca_in in Hin. destruct Hin as [Hin|(f & n & ->)].
    + destruct (W2 id Hin) as (t & L & C). exists t. split; auto.
      eapply repo_frozen_ended; eauto; congruence.
    + destruct (user_cancel_ok s f n id s' I H) as (t & L & C). exists t; auto.
  - intros id t L D. destruct (disp_origin_label s l s' id t I Hs L D) as [L0|(f & hf & r & -> & T)].
    + apply walk_ma_mono. eapply W3; eauto.
    + cbn. rewrite T. left; auto.
Qed.

Lemma walk_check_ok s l s' st ca ma :
  SysInv s -> sstepf s l = Some s' -> walk_inv s st ca ma -> walk_check l st ca ma = true.
Proof.
  intros I H (W1 & W2 & W3). destruct l; try reflexivity. cbn.
  apply sstepf_sstep in H. inv H.
  match goal with F : List.find _ _ = Some _ |- _ => apply find_fst_some in F as [-> H1] end.
  pose proof (inv_acc_snap s I _ _ H1) as L.
  destruct (inv_live_disp s I id) as (t0 & L0 & D); [apply in_live; left; eapply in_ids; eauto|].
  rewrite L in L0; inv L0.
  assert (A1 : str_mem id (start_ids s) = false).
  { destruct (str_mem id (start_ids s)) eqn:M; auto. apply str_mem_in in M.
    exfalso. revert M. apply (inv_acc_unstarted s I). eapply in_ids; eauto. }
  assert (A2 : str_mem id ca = false).
  { destruct (str_mem id ca) eqn:M; auto. apply str_mem_in in M. destruct (W2 id M) as (t1 & L1 & C). congruence. }
  assert (A3 : str_mem id ma = true) by (apply str_mem_in; eapply W3; eauto).
  rewrite A1, A2, A3, D. reflexivity.
Qed.

Lemma c04_walk_run tr : forall s s' st ca ma,
  SysInv s -> srun s tr = Some s' -> srun_ok s tr -> walk_inv s st ca ma -> c04_walk tr st ca ma = true.
Proof.
  induction tr as [|l r IH]; intros s s' st ca ma I H Ok W; [reflexivity|].
  rewrite c04_walk_cons. cbn in H, Ok. destruct Ok as [Hl Hr]. fold (sstepf s l) in *.
  destruct (sstepf s l) as [s1|] eqn:E; [|discriminate].
  rewrite (walk_check_ok s l s1 st ca ma I E W). cbn.
  apply (IH s1 s'); auto.
  - eapply SysInv_step; eauto.
  - eapply walk_inv_step; eauto.
Qed.

(* B4 *)
Theorem c04_holds tr s : srun sys_init tr = Some s -> srun_ok sys_init tr -> c04_ok tr = true.
Proof.
  intros H Ok. unfold c04_ok. eapply c04_walk_run; eauto using SysInv_init.
  split; [reflexivity|]. split; [intros id []|]. intros id t L. cbn in L. discriminate.
Qed.

(* ================================================================================================ *)
(* D. C06 — outcomes                                                                                 *)
(* ================================================================================================ *)
Lemma set_done_recorded t now o e :
  wf_task t = true -> t_state t = Dispatched -> outcome_eqb o OCanceled = false -> err_match e o = true ->
  outcome_recorded o (set_done t now e) = true.
Proof.
  intros W D NC EM. apply wf_task_parts in W. destruct W as (_ & _ & S). unfold stamps_ok in S. rewrite D in S.
  apply andb_true_iff in S as [_ Serr].
  unfold err_match in EM. destruct o; cbn in *; try discriminate; destruct e; try discriminate; cbn; auto;
    rewrite ?EM; reflexivity.
Qed.

(* the step that consumes a queued result through a successful MarkAsDone records exactly that outcome *)
Theorem mark_done_records s id e hf s' :
  reachable s -> sy_pc s = PSelect -> sstepf s (LCall (CMarkDone id e) FNone hf (RRes ROk)) = Some s' ->
  exists o rest t', sy_results s = (id, o) :: rest /\ sy_results s' = rest /\ o <> OCanceled
    /\ lookup id (repo_of s') = Some t' /\ outcome_recorded o t' = true
    /\ (o = ONil -> t_state t' = Done) /\ (forall x, o <> ONil -> outcome_err o = Some x -> t_state t' = Err /\ t_err t' = x)
    /\ sy_pc s' = PEnd (STaskDone id o false) false.
Proof.
  intros R P H. pose proof (reachable_inv s R) as I. apply sstepf_sstep in H.
  inv H; try (match goal with E : sy_pc s = _ |- _ => rewrite P in E; discriminate E end).
  - (* SCtl is impossible at this program point *)
    match goal with E : ctl_ok _ _ |- _ => rewrite P in E; contradiction E end.
  - match goal with E : cret_eqb _ _ = true |- _ => apply cret_eqb_res in E; inv E end.
    match goal with E : done_eff FNone _ _ _ _ _ _ |- _ => unfold done_eff in E; destruct E as [E1 E2] end.
    symmetry in E2. destruct (done_ok _ _ _ _ (inv_wf s I) E2) as (t & L & D & L').
    pose proof (wf_lookup _ _ _ (inv_wf s I) L) as Wt.
    exists o, rest, (set_done t (sy_now s) e). split; auto. split; [reflexivity|].
    split; [intros ->; discriminate|]. split.
    { unfold repo_of at 1. cbn [sy_h]. rewrite E1. exact L'. }
    split; [apply set_done_recorded; auto|]. split; [|split].
    + intros ->. unfold err_match in *. cbn in *. destruct e; [discriminate | reflexivity].
    + intros x NN Ex. unfold err_match in *. rewrite Ex in *. destruct e as [a|]; [|discriminate].
      match goal with E : String.eqb a x = true |- _ => apply String.eqb_eq in E; subst a end. cbn. auto.
    + cbn [sy_pc]. rewrite ?E2. reflexivity.
Qed.

(* ... and the record is final: it is what any later state (in particular the final dump) shows *)
Theorem mark_done_final s id e hf s1 tr s2 :
  reachable s -> sy_pc s = PSelect -> sstepf s (LCall (CMarkDone id e) FNone hf (RRes ROk)) = Some s1 ->
  srun s1 tr = Some s2 -> srun_ok s1 tr ->
  exists o rest t', sy_results s = (id, o) :: rest /\ o <> OCanceled
    /\ lookup id (repo_of s2) = Some t' /\ outcome_recorded o t' = true.
Proof.
  intros R P H Hr Ok.
  destruct (mark_done_records s id e hf s1 R P H) as (o & rest & t' & E1 & E2 & NC & L & Rec & Dn & Er & _).
  assert (R1 : reachable s1) by (eapply reachable_step; eauto; exact Logic.I).
  exists o, rest, t'. split; auto. split; auto. split; auto.
  eapply ended_stays; eauto using reachable_inv.
  - destruct o; cbn in Rec; try (apply andb_true_iff in Rec as [Rec _]; apply state_eqb_eq in Rec; congruence).
    congruence.
  - destruct o; cbn in Rec; try (apply andb_true_iff in Rec as [Rec _]; apply state_eqb_eq in Rec; congruence).
    congruence.
Qed.

(* a run that ended only by cancellation is reported without any repository call; the task stays dispatched *)
Theorem canceled_reported s id s' :
  reachable s -> sy_pc s = PSelect -> sstepf s (LStepEnd (STaskDone id OCanceled false) false) = Some s' ->
  exists rest t, sy_results s = (id, OCanceled) :: rest /\ sy_results s' = rest
    /\ repo_of s' = repo_of s /\ lookup id (repo_of s') = Some t /\ t_state t = Dispatched
    /\ sy_reports s' = id :: sy_reports s /\ sy_pc s' = PIdle.
Proof.
  intros R P H. pose proof (reachable_inv s R) as I. apply sstepf_sstep in H.
  inv H; try (match goal with E : sy_pc s = _ |- _ => rewrite P in E; discriminate E end).
  match goal with E : sy_results s = _ |- _ => rename E into Rs end.
  destruct (inv_live_disp s I id) as (t & L & D).
  { apply in_live. right; right. unfold res_ids. rewrite Rs. left; reflexivity. }
  exists rest, t. repeat split; auto.
Qed.

(* every result leaves the queue exactly once: an id that was reported (or is being reported) is never
   again held by the dispatcher, so it can never be queued a second time *)
Lemma ended_mono s l s' x : sstep s l s' -> In x (ended s) -> In x (ended s').
Proof.
  intros H. unfold ended. rewrite !in_app_iff.
  destruct H; simp_sys; try tauto;
    try (match goal with E : sy_pc s = _ |- _ => rewrite E; cbn [pc_td In]; tauto end).
  - (* LStepEnd *) rewrite H. destruct st'; cbn; tauto.
  - (* control *) intros [Hx|Hx]; auto. exfalso.
    destruct (sy_pc s); cbn in *; contradiction.
Qed.

Theorem reported_once tr : forall s s' id,
  SysInv s -> srun s tr = Some s' -> srun_ok s tr -> In id (ended s) ->
  In id (ended s') /\ ~ In id (res_ids s') /\ ~ In id (acc_ids s') /\ ~ In id (sy_running s').
Proof.
  induction tr as [|l r IH]; cbn; intros s s' id I H Ok E.
  - inv H. split; auto. pose proof (inv_live_ended s' I id) as N. rewrite in_live in N. tauto.
  - destruct Ok as [Hl Hr]. fold (sstepf s l) in *. destruct (sstepf s l) as [s1|] eqn:St; [|discriminate].
    apply (IH s1 s' id); auto.
    + eapply SysInv_step; eauto.
    + exact (ended_mono s l s1 id (sstepf_sstep s l s1 St) E).
Qed.

(* ================================================================================================ *)
(* C. C03 — findings first                                                                           *)
(* ================================================================================================ *)
(* FINDING (Retry window): the hypothesis "no postponement between the announcing GetNext and the
   MarkAsDispatched of Step" (SysCheck.postponed_in_window) does NOT suffice for C03.
   Retry(DispatchErr) reads the task (GetById: scheduled and due), then calls MarkAsDispatched; a user
   who postpones the task between those two calls has it started before its (new) scheduled time.
   The trace below is accepted by the monitor of the repaired variants. *)
Definition cex_now0 : gtime := T 0 true.
Definition cex_now1 : gtime := T 1000000 true.
Definition cex_p : uparam := mkU (Some "w") None None None (Some (T 1000000 true)) None.
Definition cex_t : task := to_task (norm_uparam cex_p) "a" cex_now0.
Definition cex_pu : uparam := mkU None None None None (Some (T 5000000 true)) None.
Definition cex_t2 : task := set_dispatched (task_update cex_t (norm_uparam cex_pu)) cex_now1.

Definition cex_prefix : list slabel :=
  [ LUser (HStart false cex_now0) ROk;
    LUser (HAdd false cex_now0 "a" cex_p) (RTask cex_t);
    LAdvance cex_now1;
    LStepBegin;
    LCall CLtue FNone false (RBool false);
    LCall CTimerCh FNone false RUnit;
    LFire;
    LCall CGetNext FNone false (RRes (RTask cex_t));
    LCall CNextSched FNone false (RTime (Some (t_sched cex_t)));
    LStepEnd (SNextTask true (Some cex_t)) false;
    LStepBegin;
    LCall CLtue FNone false (RBool false) ].

Definition cex_retry_window : list slabel :=
  cex_prefix ++
  [ LCall (CMarkDisp "a") FBefore false (RRes (RErr EOther));      (* injected fault, no effect *)
    LStepEnd (SDispatchErr cex_t) false;
    LRetryBegin (SDispatchErr cex_t);
    LCall (CGetById "a") FNone false (RRes (RTask cex_t));         (* scheduled and due: dispatch it *)
    LUser (HUpdate false cex_now1 "a" cex_pu) ROk;                 (* the user postpones the task *)
    LCall (CMarkDisp "a") FNone false (RRes ROk);                  (* unconditional *)
    LCall (CGetById "a") FNone false (RRes (RTask cex_t2));
    LWorkStart "a" cex_now1 cex_t2 ].

Example cex_retry_window_accepted :
  sys_check scfg_fixed hcfg_fixed sys_init cex_retry_window 0 = None
  /\ (match srun sys_init cex_retry_window with Some s => map (fun x => fst (fst x)) (sy_starts s) | None => [] end) = ["a"]
  /\ postponed_in_window cex_retry_window None [] = []
  /\ c03_ok cex_retry_window = false
  /\ sig_F9b cex_retry_window = false.
Proof. vm_compute. repeat split; reflexivity. Qed.
Example cex_retry_window_ok : srun_ok sys_init cex_retry_window.
Proof. unfold srun_ok. cbn -[sys_step]. vm_compute. intuition. Qed.

(* RECORD (lost task): MarkAsDispatched of Step fails AFTER its effect; the driver does not retry but
   calls Step again (allowed). No duplicate start — the task is left dispatched and is never run:
   the system is quiescent (driver blocked in select, timer idle, nothing accepted / running / queued). *)
Definition cex_lost_task : list slabel :=
  cex_prefix ++
  [ LCall (CMarkDisp "a") FAfter false (RRes (RErr EOther));       (* the task IS dispatched now *)
    LStepEnd (SDispatchErr cex_t) false;
    LStepBegin;
    LCall CLtue FNone false (RBool false);
    LCall CTimerCh FNone false RUnit ].
Example lost_task_after_fault :
  match srun sys_init cex_lost_task with
  | Some s => (map (fun t => (t_id t, t_state t)) (repo_of s), sy_pc s, sy_accepted s, sy_running s, sy_results s,
               sy_starts s, hs_timer (sy_h s))
  | None => ([], PIdle, [], [], [], [], timer_idle)
  end = ([("a", Dispatched)], PSelect, [], [], [], [], timer_idle).
Proof. vm_compute. reflexivity. Qed.

(* ---------- C03 proper: windows ---------- *)
Definition win_bad (a : option string) (l : slabel) : bool :=
  match l with
  | LUser (HUpdate _ _ id p) ROk =>
    match a, u_sched p with Some x, Some _ => String.eqb x id | _, _ => false end
  | _ => false
  end.
(* the window of SysCheck.postponed_in_window: from the announcing GetNext to Step's MarkAsDispatched *)
Definition winA_next (a : option string) (l : slabel) : option string :=
  match l with
  | LCall CGetNext _ _ (RRes (RTask t)) => Some (t_id t)
  | LCall (CMarkDisp _) _ _ _ => None
  | _ => a
  end.
(* the window of Retry(DispatchErr): from its GetById to its MarkAsDispatched *)
Definition winB_next (b : option string) (l : slabel) : option string :=
  match l with
  | LCall (CGetById _) _ _ (RRes (RTask t)) => Some (t_id t)
  | LCall (CMarkDisp _) _ _ _ => None
  | _ => b
  end.
(* no successful UpdateById with a new scheduled time for the fetched task inside the Retry window *)
Fixpoint no_postpone_retry (b : option string) (tr : list slabel) : Prop :=
  match tr with
  | [] => True
  | l :: r => win_bad b l = false /\ no_postpone_retry (winB_next b l) r
  end.

Lemma piw_acc tr : forall a acc, postponed_in_window tr a acc = [] -> acc = [].
Proof.
  induction tr as [|l r IH]; cbn; intros a acc H; auto.
  destruct l as [o x| | | |c f hf x| | | | | |]; try (eapply IH; eauto; fail).
  - destruct o; try (eapply IH; eauto; fail). destruct x; try (eapply IH; eauto; fail).
    destruct a as [y|]; [|eapply IH; eauto]. destruct (u_sched p); [|eapply IH; eauto].
    apply IH in H. destruct (String.eqb y id); [discriminate | auto].
  - destruct c; try (eapply IH; eauto; fail).
    destruct x; try (eapply IH; eauto; fail). destruct r0; eapply IH; eauto.
Qed.
Lemma piw_cons l r a :
  postponed_in_window (l :: r) a [] = [] -> win_bad a l = false /\ postponed_in_window r (winA_next a l) [] = [].
Proof.
  cbn. intros H.
  destruct l as [o x| | | |c f hf x| | | | | |]; try (split; [reflexivity | exact H]).
  - destruct o; try (split; [reflexivity | exact H]). destruct x; try (split; [reflexivity | exact H]).
    cbn. destruct a as [y|]; [|split; [reflexivity | exact H]].
    destruct (u_sched p); [|split; [reflexivity | exact H]].
    destruct (String.eqb y id) eqn:E; [apply piw_acc in H; discriminate | split; [reflexivity | exact H]].
  - destruct c; try (split; [reflexivity | exact H]).
    destruct x; try (split; [reflexivity | exact H]). destruct r0; split; try reflexivity; exact H.
Qed.

(* ---------- C-b: the clock never goes back ---------- *)
Lemma sstep_now s l s' : sstep s l s' -> inst (sy_now s) <= inst (sy_now s').
Proof. intros H. destruct H; simp_sys; lia. Qed.
Theorem now_monotone tr : forall s s', srun s tr = Some s' -> inst (sy_now s) <= inst (sy_now s').
Proof.
  induction tr as [|l r IH]; cbn; intros s s' H; [inv H; lia|].
  fold (sstepf s l) in *. destruct (sstepf s l) as [s1|] eqn:E; [|discriminate].
  apply sstepf_sstep, sstep_now in E. apply IH in H. lia.
Qed.

(* ---------- how a scheduled time can change ---------- *)
Lemma update_res r id p :
  snd (step cfg_inmem r (OUpdate false id p)) = ROk \/ is_err (snd (step cfg_inmem r (OUpdate false id p))) = true.
Proof.
  cbn [step c_upd_valid_first cfg_inmem andb]. destruct (lookup id r); cbn; auto.
  destruct (negb (state_eqb _ _)); [destruct (err_kind_update t); cbn; auto|].
  destruct (negb (is_valid _)); cbn; auto.
Qed.
Lemma wf_sched_normed t : wf_task t = true -> norm (t_sched t) = t_sched t.
Proof.
  unfold wf_task. intros W. repeat (apply andb_true_iff in W as [W ?]). apply normed_eq; auto.
Qed.

Lemma sched_track s l s' x t0 :
  SysInv s -> sstep s l s' -> lookup x (repo_of s) = Some t0 ->
  exists t1, lookup x (repo_of s') = Some t1 /\
    (t_state t1 = Scheduled -> t_state t0 = Scheduled /\
       (t_sched t1 = t_sched t0 \/ exists f n p, l = LUser (HUpdate f n x p) ROk /\ u_sched p <> None)).
Proof.
  intros I H L. pose proof (inv_wf s I) as W.
  destruct (repo_keeps s s' l I H x t0 L) as (t1 & L1). exists t1. split; auto. intros S1.
  assert (G : forall op, lifecycle_op op -> (forall c p, op <> OUpdate c x p) ->
              repo_of s' = fst (step cfg_inmem (repo_of s) op) -> t1 = t0).
  { intros op Lo Nu E. rewrite E in L1. destruct (step_lookup_cases cfg_inmem _ op x t0 W Lo L) as [K|[K|[K|[K|K]]]].
    - congruence.
    - destruct K as (_ & c & p & -> & _). exfalso; eapply Nu; eauto.
    - destruct K as (_ & c & n & _ & K). rewrite K in L1; inv L1. discriminate.
    - destruct K as (_ & c & n & _ & K). rewrite K in L1; inv L1. discriminate.
    - destruct K as (_ & c & n & e & _ & K). rewrite K in L1; inv L1. destruct e; discriminate. }
  assert (Same : t1 = t0 -> t_state t0 = Scheduled /\
            (t_sched t1 = t_sched t0 \/ exists f n p, l = LUser (HUpdate f n x p) ROk /\ u_sched p <> None))
    by (intros ->; auto).
  destruct H; unfold repo_of in *; unfold set_h, set_pc, set_sched, accept_task in *; cbn [sy_h hs_repo] in *;
    try (apply Same; congruence).
  - (* user *)
    destruct o; inv H; try (apply Same; eapply G; eauto; [reflexivity | discriminate]).
    + (* update *)
      destruct (String.eqb_spec id x) as [->|NE].
      2:{ apply Same. eapply G; eauto; [reflexivity|]. intros c p0 Eq. inv Eq. congruence. }
      rewrite H1 in L1.
      destruct (step_lookup_cases cfg_inmem _ (OUpdate false x p) x t0 W eq_refl L) as [K|[K|[K|[K|K]]]].
      * apply Same. congruence.
      * destruct K as (S0 & c & p0 & Eq & K). inv Eq. rewrite K in L1. inv L1. split; auto.
        destruct (u_sched p0) eqn:U.
        -- destruct (update_res (hs_repo (sy_h s)) x p0) as [Rk|Re].
           ++ right. exists fault, now, p0. rewrite Rk in H2. destruct r; try discriminate. split; [reflexivity | congruence].
           ++ left. apply error_no_change in Re. rewrite Re in K. f_equal. congruence.
        -- left. unfold task_update, norm_task, norm_uparam. cbn. rewrite U. cbn.
           apply wf_sched_normed. eapply wf_lookup; eauto.
      * destruct K as (_ & c & n & Eq & _). discriminate.
      * destruct K as (_ & c & n & Eq & _). discriminate.
      * destruct K as (_ & c & n & e & Eq & _). discriminate.
  - destruct f; unfold disp_eff in H1; destruct H1 as [E1 _]; try (apply Same; congruence);
      apply Same; eapply (G (ODispatch false (sy_now s) (t_id t))); eauto; try reflexivity; discriminate.
  - destruct f; unfold disp_eff in H0; destruct H0 as [E1 _]; try (apply Same; congruence);
      apply Same; eapply (G (ODispatch false (sy_now s) (t_id t))); eauto; try reflexivity; discriminate.
  - destruct f; unfold done_eff in H3; destruct H3 as [E1 _]; try (apply Same; congruence);
      apply Same; eapply (G (ODone false (sy_now s) id e)); eauto; try reflexivity; discriminate.
  - destruct f; unfold done_eff in H0; destruct H0 as [E1 _]; try (apply Same; congruence);
      apply Same; eapply (G (ODone false (sy_now s) id (outcome_err o))); eauto; try reflexivity; discriminate.
Qed.

(* C-c: the scheduled time of a task that is not scheduled (dispatched, ended) never changes *)
Theorem dispatched_sched_fixed s l s' x t0 t1 :
  SysInv s -> sstep s l s' -> lookup x (repo_of s) = Some t0 -> t_state t0 <> Scheduled ->
  lookup x (repo_of s') = Some t1 -> t_sched t1 = t_sched t0.
Proof.
  intros I H L NS L1. pose proof (inv_wf s I) as W.
  destruct (sstep_repo s l s' I H) as [E|[(op & So & Ok & E)|(now & id & e & E & NL & PC)]]; rewrite E in L1.
  - congruence.
  - rewrite (step_frozen cfg_inmem _ op x t0 W (sched_op_lifecycle _ So) L NS) in L1; [congruence|].
    intros c n e0 ->. exact So.
  - destruct (step_lookup_cases cfg_inmem _ _ x t0 W (done_lifecycle false now id e) L) as [K|[K|[K|[K|K]]]].
    + congruence.
    + destruct K as (S & _). congruence.
    + destruct K as (S & _). congruence.
    + destruct K as (S & _). congruence.
    + destruct K as (_ & c & n & e0 & _ & K). rewrite K in L1. inv L1. reflexivity.
Qed.

(* where a dispatched task comes from, with its scheduled time *)
Lemma disp_origin_task s l s' x t' :
  SysInv s -> sstep s l s' -> lookup x (repo_of s') = Some t' -> t_state t' = Dispatched ->
  lookup x (repo_of s) = Some t' \/
  exists t0, lookup x (repo_of s) = Some t0 /\ t_state t0 = Scheduled /\ t_sched t' = t_sched t0 /\
    ((exists t, sy_last s = Some t /\ t_id t = x /\ sy_pc s = PStepMain)
     \/ (exists k t, sy_pc s = PDisp1 k t /\ t_id t = x)).
Proof.
  intros I H L D. pose proof (inv_wf s I) as W.
  assert (G : forall op, lifecycle_op op -> (forall c n, op <> ODispatch c n x) ->
              repo_of s' = fst (step cfg_inmem (repo_of s) op) -> lookup x (repo_of s) = Some t').
  { intros op Lo Nd E. rewrite E in L.
    destruct (step_disp_origin _ _ _ _ _ W Lo L D) as (t & L0 & [->|(_ & c & n & -> & _)]); auto.
    exfalso; eapply Nd; eauto. }
  assert (GD : forall f id r' xr, disp_eff f (repo_of s) (sy_now s) id r' xr -> repo_of s' = r' ->
               lookup x (repo_of s) = Some t' \/
               (id = x /\ exists t0, lookup x (repo_of s) = Some t0 /\ t_state t0 = Scheduled /\ t_sched t' = t_sched t0)).
  { intros f id r' xr E Er.
    assert (Lc : lifecycle_op (ODispatch false (sy_now s) id)) by reflexivity.
    destruct f; unfold disp_eff in E; destruct E as [E1 E2]; try (left; congruence);
      rewrite Er, E1 in L;
      (destruct (step_disp_origin _ _ _ _ _ W Lc L D) as (t & L0 & [->|(S & c & n & Eq & Et)]); auto;
       right; split; [congruence|]; exists t; rewrite Et; auto). }
  destruct H; try (destruct (GD _ _ _ _ H1 eq_refl) as [K|(Ei & t0 & K)]; [auto | right; exists t0; intuition eauto 7]; fail);
    try (destruct (GD _ _ _ _ H0 eq_refl) as [K|(Ei & t0 & K)]; [auto | right; exists t0; intuition eauto 7]; fail);
    left; unfold repo_of in *; unfold set_h, set_pc, set_sched, accept_task in *; cbn [sy_h hs_repo] in *;
    try congruence.
  - apply (G op).
    + destruct o; inv H; reflexivity.
    + intros c n ->. destruct o; inv H. eapply H0; eauto.
    + exact H1.
  - destruct f; unfold done_eff in H3; destruct H3 as [E1 _]; try congruence;
      apply (G (ODone false (sy_now s) id e)); auto; try reflexivity; discriminate.
  - destruct f; unfold done_eff in H0; destruct H0 as [E1 _]; try congruence;
      apply (G (ODone false (sy_now s) id (outcome_err o))); auto; try reflexivity; discriminate.
Qed.

(* ---------- the timing invariant (relative to the two windows) ---------- *)
Record CInv (s : sys) (a b : option string) : Prop := mkCInv {
  (* whatever is stored as dispatched was due when it was marked *)
  ci_disp : forall id t, lookup id (repo_of s) = Some t -> t_state t = Dispatched -> inst (t_sched t) <= inst (sy_now s);
  ci_fire2 : forall t, sy_pc s = PFire2 t ->
    a = Some (t_id t) /\ exists t0, lookup (t_id t) (repo_of s) = Some t0 /\ (t_state t0 = Scheduled -> t_sched t0 = t_sched t);
  ci_last : forall t, sy_last s = Some t ->
    a = Some (t_id t) /\ exists t0, lookup (t_id t) (repo_of s) = Some t0
                                   /\ (t_state t0 = Scheduled -> inst (t_sched t0) <= inst (sy_now s));
  ci_disp1 : forall k t, sy_pc s = PDisp1 k t ->
    b = Some (t_id t) /\ exists t0, lookup (t_id t) (repo_of s) = Some t0
                                   /\ (t_state t0 = Scheduled -> inst (t_sched t0) <= inst (sy_now s))
}.

Lemma tracked_keep s l s' x (Q Q' : gtime -> Prop) :
  SysInv s -> sstep s l s' -> win_bad (Some x) l = false -> (forall g, Q g -> Q' g) ->
  (exists t0, lookup x (repo_of s) = Some t0 /\ (t_state t0 = Scheduled -> Q (t_sched t0))) ->
  exists t1, lookup x (repo_of s') = Some t1 /\ (t_state t1 = Scheduled -> Q' (t_sched t1)).
Proof.
  intros I H NB QQ (t0 & L & HQ). destruct (sched_track s l s' x t0 I H L) as (t1 & L1 & K).
  exists t1. split; auto. intros S1. destruct (K S1) as (S0 & [E|(f & n & p & -> & U)]).
  - rewrite E. auto.
  - exfalso. cbn in NB. destruct (u_sched p); [|congruence]. rewrite String.eqb_refl in NB. discriminate.
Qed.

Lemma nocall_win l a b : (forall c f hf r, l <> LCall c f hf r) -> winA_next a l = a /\ winB_next b l = b.
Proof. intros H. destruct l; cbn; auto. exfalso; eapply H; eauto. Qed.

Ltac norm_in H :=
  unfold set_pc, set_h, set_sched, accept_task in H;
  cbn [sy_h sy_now sy_last sy_err sy_pc sy_accepted sy_running sy_results sy_starts sy_reports sy_retry] in H.

Lemma CInv_step s l s' a b :
  SysInv s -> CInv s a b -> sstep s l s' -> win_bad a l = false -> win_bad b l = false ->
  CInv s' (winA_next a l) (winB_next b l).
Proof.
  intros I C H Na Nb. pose proof (sstep_now s l s' H) as Mono. constructor.
  - (* dispatched tasks were due *)
    intros x t' L' D'.
    destruct (disp_origin_task s l s' x t' I H L' D')
      as [L0 | (t0 & L0 & S0 & Es & [(t & Hl & Ei & P) | (k & t & P & Ei)])].
    + pose proof (ci_disp s a b C x t' L0 D'). lia.
    + destruct (ci_last s a b C t Hl) as (_ & t1 & L1 & Hs). rewrite Ei, L0 in L1. inv L1.
      specialize (Hs S0). rewrite Es. lia.
    + destruct (ci_disp1 s a b C k t P) as (_ & t1 & L1 & Hs). rewrite Ei, L0 in L1. inv L1.
      specialize (Hs S0). rewrite Es. lia.
  - (* PFire2 *)
    intros t Hp.
    assert (Keep : sy_pc s = PFire2 t -> (forall c f hf r, l <> LCall c f hf r) ->
              winA_next a l = Some (t_id t) /\
              exists t0, lookup (t_id t) (repo_of s') = Some t0 /\ (t_state t0 = Scheduled -> t_sched t0 = t_sched t)).
    { intros P NC. destruct (ci_fire2 s a b C t P) as (Ea & Ex). destruct (nocall_win l a b NC) as [-> _].
      split; auto. subst a.
      apply (tracked_keep s l s' (t_id t) (fun g => g = t_sched t) (fun g => g = t_sched t) I H Na); auto. }
    destruct H; norm_in Hp; try discriminate Hp;
      try (apply Keep; [exact Hp | intros ? ? ? ? Eq; discriminate Eq]; fail).
    + destruct prev; discriminate.
    + subst pc'. contradiction.
    + destruct (is_err_res x); discriminate.
    + destruct (is_err_res x); discriminate.
    + inv Hp. cbn. split; auto. apply get_next_min in H0. destruct H0 as (Hin & _).
      exists t. split; auto. apply wf_in_lookup; auto. exact (inv_wf s I).
    + destruct H2 as [->| ->]; discriminate.
  - (* lastTask *)
    intros t Hl.
    assert (Keep : sy_last s = Some t -> winA_next a l = a ->
              winA_next a l = Some (t_id t) /\
              exists t0, lookup (t_id t) (repo_of s') = Some t0
                         /\ (t_state t0 = Scheduled -> inst (t_sched t0) <= inst (sy_now s'))).
    { intros Hl0 Ew. destruct (ci_last s a b C t Hl0) as (Ea & Ex). rewrite Ew. split; auto. subst a.
      apply (tracked_keep s l s' (t_id t) (fun g => inst g <= inst (sy_now s)) (fun g => inst g <= inst (sy_now s')) I H Na); auto.
      cbn. intros; lia. }
    assert (Nde : sy_last s = Some t -> ~ de_pc (sy_pc s)) by (intros Hl0; apply (inv_last s I t Hl0)).
    destruct H; norm_in Hl;
      try (apply Keep; [exact Hl | reflexivity]; fail);
      try (exfalso; apply (Nde Hl); rewrite H; exact Logic.I).
    + (* control *)
      assert (Hl0 : sy_last s = Some t) by (destruct H3 as [<-|E]; [auto | congruence]).
      specialize (Nde Hl0). apply Keep; auto.
      destruct (sy_pc s); destruct c; cbn in H5; try contradiction; try reflexivity; exfalso; apply Nde; exact Logic.I.
    + discriminate.
    + (* announce *)
      inv Hl. destruct (ci_fire2 s a b C t H) as (Ea & t0 & L0 & Hs). cbn. split; auto.
      exists t0. split; auto. intros S0. rewrite (Hs S0). unfold t_after in H0. apply Z.ltb_ge in H0. exact H0.
  - (* PDisp1 *)
    intros k t Hp.
    assert (Keep : sy_pc s = PDisp1 k t -> (forall c f hf r, l <> LCall c f hf r) ->
              winB_next b l = Some (t_id t) /\
              exists t0, lookup (t_id t) (repo_of s') = Some t0
                         /\ (t_state t0 = Scheduled -> inst (t_sched t0) <= inst (sy_now s'))).
    { intros P NC. destruct (ci_disp1 s a b C k t P) as (Eb & Ex). destruct (nocall_win l a b NC) as [_ ->].
      split; auto. subst b.
      apply (tracked_keep s l s' (t_id t) (fun g => inst g <= inst (sy_now s)) (fun g => inst g <= inst (sy_now s')) I H Nb); auto.
      cbn. intros; lia. }
    destruct H; norm_in Hp; try discriminate Hp;
      try (apply Keep; [exact Hp | intros ? ? ? ? Eq; discriminate Eq]; fail).
    + destruct prev; discriminate.
    + subst pc'. contradiction.
    + destruct (is_err_res x); discriminate.
    + destruct (is_err_res x); discriminate.
    + inv Hp. cbn. split; auto. exists t. rewrite (lookup_id _ _ _ H0). split; auto.
      intros _. unfold t_after in H2. apply Z.ltb_ge in H2. exact H2.
    + destruct H2 as [->| ->]; discriminate.
Qed.

Lemma CInv_init : CInv sys_init None None.
Proof. constructor; cbn; intros; discriminate. Qed.

Lemma c03_cons l r :
  c03_ok (l :: r) =
  (match l with LWorkStart _ n snap => inst (t_sched snap) <=? inst n | _ => true end) && c03_ok r.
Proof. destruct l; reflexivity. Qed.

Lemma c03_run tr : forall s s' a b,
  SysInv s -> CInv s a b -> srun s tr = Some s' -> srun_ok s tr ->
  postponed_in_window tr a [] = [] -> no_postpone_retry b tr -> c03_ok tr = true.
Proof.
  induction tr as [|l r IH]; intros s s' a b I C H Ok Pa Pb; [reflexivity|].
  rewrite c03_cons. apply piw_cons in Pa. destruct Pa as [Na Pa]. destruct Pb as [Nb Pb].
  cbn in H, Ok. destruct Ok as [Hl Hr]. fold (sstepf s l) in *.
  destruct (sstepf s l) as [s1|] eqn:E; [|discriminate].
  pose proof (sstepf_sstep s l s1 E) as Hs.
  apply andb_true_iff. split.
  - destruct l; try reflexivity. inv Hs.
    match goal with F : List.find _ _ = Some _ |- _ => apply find_fst_some in F as [-> H1] end.
    pose proof (inv_acc_snap s I _ _ H1) as L.
    destruct (inv_live_disp s I id) as (t0 & L0 & D); [apply in_live; left; eapply in_ids; eauto|].
    rewrite L in L0; inv L0. apply Z.leb_le. eapply ci_disp; eauto.
  - apply (IH s1 s' (winA_next a l) (winB_next b l)); auto.
    + eapply SysInv_step; eauto.
    + eapply CInv_step; eauto.
Qed.

(* C03: no work function starts before the scheduled time of the task it is handed, provided nobody
   postpones a task inside the two read-then-dispatch windows (Step: GetNext .. MarkAsDispatched = F9b;
   Retry(DispatchErr): GetById .. MarkAsDispatched = the finding above) *)
Theorem c03_holds tr s :
  srun sys_init tr = Some s -> srun_ok sys_init tr ->
  postponed_in_window tr None [] = [] -> no_postpone_retry None tr ->
  c03_ok tr = true.
Proof. intros H Ok Pa Pb. eapply c03_run; eauto using SysInv_init, CInv_init. Qed.

(* C-a: the fire branch announces only a task whose time has come *)
Theorem announce_due s next f hf r s' t :
  reachable s -> sy_pc s = PFire2 next -> sstepf s (LCall CNextSched f hf r) = Some s' -> sy_last s' = Some t ->
  t = next /\ inst (t_sched next) <= inst (sy_now s).
Proof.
  intros R P H Hl. pose proof (reachable_inv s R) as I. apply sstepf_sstep in H.
  inv H; try (match goal with E : sy_pc s = _ |- _ => rewrite P in E; discriminate E end).
  - norm_in Hl. exfalso.
    assert (Hl0 : sy_last s = Some t) by (match goal with E : _ \/ _ |- _ => destruct E as [<-|E]; [auto | congruence] end).
    destruct (inv_last s I t Hl0) as (Nde & _). apply Nde. rewrite P. exact Logic.I.
  - norm_in Hl. inv Hl.
    match goal with E : sy_pc s = PFire2 _ |- _ => rewrite P in E; inv E end.
    split; auto. match goal with E : t_after _ _ = false |- _ => unfold t_after in E; apply Z.ltb_ge in E; exact E end.
Qed.

(* ================================================================================================ *)
(* audit                                                                                             *)
(* ================================================================================================ *)
Print Assumptions SysInv_step.
Print Assumptions reachable_wf.
Print Assumptions reachable_claimed.
Print Assumptions reachable_active_dispatched.
Print Assumptions reachable_exclusive.
Print Assumptions starts_nodup.
Print Assumptions start_dispatched.
Print Assumptions no_start_after_cancel.
Print Assumptions c04_holds.
Print Assumptions cex_retry_window_accepted.
Print Assumptions cex_retry_window_ok.
Print Assumptions lost_task_after_fault.
Print Assumptions c03_holds.
Print Assumptions announce_due.
Print Assumptions now_monotone.
Print Assumptions dispatched_sched_fixed.
Print Assumptions mark_done_records.
Print Assumptions mark_done_final.
Print Assumptions canceled_reported.
Print Assumptions reported_once.
