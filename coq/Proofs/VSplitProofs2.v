(* Proofs/VSplitProofs2.v - C04 ("an id starts at most once") for the finer-grained monitor of VSplit.v.

   FINDING.  C04 does NOT carry over to the extended monitor.  The invariant VI4 of VSysProofs.v is not preserved by the
   label XSplitMark: the clause that fails is w_pc (at PDisp2 _ t, if the record still has t_id t then the pending task
   t_id t is bound to is [gone] from the store).  MarkAsDispatched's Peek saw the announced id at the head; an EditTask
   that ADDS an entry whose first occurrence sorts before that head lands between Peek and Pop; Pop removes the new head
   (another entry's occurrence); the record keeps the announced id, GetById returns it, the task is dispatched and
   started - and its pending occurrence is STILL in the store under the same insertion number, hence is announced
   under the same id again and started a second time.
     XVI4_not_preserved          a reachable state (VI3 and VI4 hold), one accepted XSplitMark, VI4 fails afterwards
     XC04_at_most_once_refuted   an accepted extended trace (fixed scheduler, one store, one split) in which "A" starts
                                 twice; vc04_ok of its ordinary labels is false (vc03_ok is true)

   WHAT REMAINS TRUE.  All the other clauses of VI4 survive; w_pc survives exactly when the announced occurrence is not
   pending any more after the split call (the edit removed its entry - cf. X_split_discards_an_occurrence - or the Pop
   popped it after all): [split_removes_head].  For traces all of whose splits are of that kind ([xsafe]):
     xvi4_step, xvi34_run, XC04_at_most_once_safe, XC04_predicate_holds_safe. *)
From GK Require Import VSplit.
From GK.Proofs Require Import BaseLemmas RepoProofs2 CronProofs CronInv SysProofs VSysProofs VSplitProofs.
From Coq Require Import Permutation ZifyBool Lia.

(* ---------- the store after Edit ; Pop ---------- *)
Lemma pend_ext_trans c1 c2 c3 : pend_ext c1 c2 -> pend_ext c2 c3 -> pend_ext c1 c3.
Proof.
  intros [A1 A2] [B1 B2]. split; [lia|]. intros p Hp. destruct (B2 p Hp) as [X|X].
  - exact (A2 p X).
  - right. lia.
Qed.
Lemma pend_ext_pop nxt c now : Inv15 nxt c -> pend_ext c (fst (pop nxt c now)).
Proof.
  intros I. destruct (pt_min None (cr_pending c)) as [h|] eqn:Hm.
  - apply (pop_gone nxt c now h I Hm).
  - unfold pop. rewrite Hm. apply pend_ext_same; reflexivity.
Qed.
Lemma inv15_edit nxt c now rm ad : Inv15 nxt c -> Inv15 nxt (fst (edit nxt c now rm ad)).
Proof.
  intros I. pose proof (inv15_step nxt c (CEdit now rm ad) I) as X. cbn [cstep] in X.
  destruct (edit nxt c now rm ad) as [c1 ok1]. exact X.
Qed.

Lemma split_cron nxt s id rm ad :
  vs_cron (fst (fst (v_mark_disp_split nxt s id rm ad)))
  = fst (pop nxt (fst (edit nxt (vs_cron s) (vs_now s) rm ad)) (vs_now s)).
Proof.
  unfold v_mark_disp_split. destruct (edit nxt (vs_cron s) (vs_now s) rm ad) as [c1 ok1]. cbn [fst].
  destruct (pop nxt c1 (vs_now s)) as [c2 [p|]]; reflexivity.
Qed.
Lemma split_vi4_store nxt s id rm ad : Inv15 nxt (vs_cron s) ->
  let c2 := vs_cron (fst (fst (v_mark_disp_split nxt s id rm ad))) in
  Inv15 nxt c2 /\ pend_ext (vs_cron s) c2.
Proof.
  intros I. cbn zeta. rewrite split_cron. split.
  - apply inv15_pop. apply inv15_edit. exact I.
  - eapply pend_ext_trans; [apply (pend_ext_edit nxt)|]. apply pend_ext_pop. apply inv15_edit. exact I.
Qed.

(* ---------- the side condition: after the split call the announced occurrence is not pending any more ---------- *)
Definition split_removes_head nxt (s : vsys) (id : string) (rm ad : list nat) : bool :=
  match pt_min None (cr_pending (vs_cron s)) with
  | Some h => negb (existsb (fun p => Nat.eqb (pt_ins p) (pt_ins h))
                            (cr_pending (vs_cron (fst (fst (v_mark_disp_split nxt s id rm ad))))))
  | None => true
  end.
Definition xstep_safe nxt (s : vsys) (l : xlabel) : bool :=
  match l with XL _ => true | XSplitMark _ id rm ad _ _ => split_removes_head nxt s id rm ad end.
Fixpoint xsafe nxt (sc : scfg) (s : vsys) (tr : list xlabel) : bool :=
  match tr with
  | [] => true
  | l :: r => xstep_safe nxt s l && match xsys_step nxt sc s l with Some s' => xsafe nxt sc s' r | None => true end
  end.

Lemma xsafe_plain nxt sc tr : forall s, xsafe nxt sc s (map XL tr) = true.
Proof.
  induction tr as [|l tr IH]; intros s; cbn [map xsafe xstep_safe xsys_step andb]; [reflexivity|].
  destruct (vsys_step nxt sc s l); [apply IH | reflexivity].
Qed.

(* ---------- 1. VI4 is preserved by the safe steps of the extended monitor ---------- *)
Lemma xvi4_step nxt sc s l s' :
  VI3 (sc_clock_check sc = true) True s -> VI4 nxt s -> xstep_safe nxt s l = true ->
  xsys_step nxt sc s l = Some s' -> VI4 nxt s'.
Proof.
  intros I3 I4 Safe H. destruct l as [l|now id rm ad ok r].
  - cbn [xsys_step] in H. eapply vi4_step; [exact I3|exact I4|exact H].
  - cbn [xstep_safe] in Safe. cbn [xsys_step] in H.
    destruct (gtime_eqb now (vs_now s) && head_bound s id) eqn:HB; [|discriminate].
    apply andb_true_iff in HB. destruct HB as [_ HB]. apply head_bound_spec in HB. destruct HB as (h & Hm & Hid).
    apply id_of_some in Hid.
    pose proof (w_inv nxt s I4) as Iinv. pose proof (w_nd nxt s I4) as Ind.
    destruct (split_vi4_store nxt s id rm ad Iinv) as [X1 X2].
    unfold split_removes_head in Safe. rewrite Hm in Safe. apply negb_true_iff in Safe.
    destruct (v_mark_disp_split nxt s id rm ad) as [[s1 ok'] x] eqn:M. cbn [fst] in X1, X2, Safe.
    destruct (Bool.eqb ok ok' && cret_eqb r (RRes x)); [|discriminate].
    apply split_frame in M.
    destruct M as (M1 & M2 & M3 & M4 & M5 & M6 & M7 & M8 & M9 & M10 & M11 & _).
    (* the announced id: not accepted / started yet, and gone from the store after the call *)
    assert (Hfresh : ~ In id (sidl (vs_accepted s) (vs_starts s))).
    { intros Hin. destruct (w_used nxt s I4 id Hin) as (ins & Hi & Hn).
      assert (E : (ins, id) = (pt_ins h, id)).
      { eapply (NoDup_map_inj_in snd); [apply (w_snd nxt s I4) | exact Hi | exact Hid | reflexivity]. }
      inv E. apply (Hn h); [apply (pop_is_min _ _ Hm) | reflexivity]. }
    assert (Hgone : gone (vs_ids s) (vs_cron s1) id).
    { exists (pt_ins h). split; [exact Hid|]. intros p Hp E.
      assert (Y : existsb (fun p => Nat.eqb (pt_ins p) (pt_ins h)) (cr_pending (vs_cron s1)) = true).
      { apply existsb_exists. exists p. split; [exact Hp | apply Nat.eqb_eq; exact E]. }
      congruence. }
    destruct (vs_pc s) eqn:P; try discriminate H.
    + destruct (vs_last s) as [t|] eqn:L; [|discriminate].
      destruct (String.eqb_spec id (t_id t)) as [->|]; [|discriminate].
      inv H. destruct (is_err_res x) eqn:Ex; apply (vi4_frame nxt s); vf; rewrite ?M1, ?M7, ?M10; auto.
    + destruct (String.eqb_spec id (t_id t)) as [->|]; [|discriminate].
      inv H. destruct (is_err_res x) eqn:Ex; apply (vi4_frame nxt s); vf; rewrite ?M1, ?M7, ?M10; auto.
Qed.

Lemma xvi34_run nxt sc tr : forall s s',
  VI3 (sc_clock_check sc = true) True s -> VI4 nxt s -> xsafe nxt sc s tr = true -> xrun nxt sc s tr = Some s' ->
  VI3 (sc_clock_check sc = true) True s' /\ VI4 nxt s'.
Proof.
  induction tr as [|l tr IH]; intros s s' I3 I4 Safe H; cbn [xrun xsafe] in *.
  - inv H. auto.
  - apply andb_true_iff in Safe. destruct Safe as [S1 S2].
    destruct (xsys_step nxt sc s l) as [s1|] eqn:S; [|discriminate].
    apply (IH s1 s'); [| |exact S2|exact H].
    + eapply xvi3_step; [exact I3|exact S].
    + eapply xvi4_step; [exact I3|exact I4|exact S1|exact S].
Qed.

(* ---------- 2. C04 for the traces whose splits all remove the announced occurrence ---------- *)
Theorem XC04_at_most_once_safe nxt sc tr s :
  xrun nxt sc vsys_init tr = Some s -> xsafe nxt sc vsys_init tr = true ->
  NoDup (map (fun x => fst (fst x)) (vs_starts s)).
Proof.
  intros H Safe. destruct (xvi34_run nxt sc tr _ _ (VI3_init _ _) (VI4_init nxt) Safe H) as [_ I4].
  pose proof (w_nd nxt s I4) as X. unfold sidl in X. apply NoDup_app_right in X. exact X.
Qed.
Print Assumptions XC04_at_most_once_safe.

Lemma xstarts_step nxt sc s l s' : xsys_step nxt sc s l = Some s' ->
  vs_starts s' = match l with
                 | XL (VNew _ _ _ _) => []
                 | XL (VWorkStart id n snap) => (id, n, snap) :: vs_starts s
                 | _ => vs_starts s
                 end.
Proof.
  intros H. destruct l as [l|now id rm ad ok r].
  - cbn [xsys_step] in H. rewrite (starts_step nxt sc s l s' H). destruct l; reflexivity.
  - apply X_split_keeps_record in H. apply H.
Qed.
Lemma xstarts_run nxt sc tr : forall s s',
  existsb is_new (xplain tr) = false -> xrun nxt sc s tr = Some s' ->
  vs_starts s' = (rev (vstarts_of (xplain tr)) ++ vs_starts s)%list.
Proof.
  induction tr as [|l tr IH]; intros s s' N H; cbn [xrun] in *.
  - inv H. reflexivity.
  - destruct (xsys_step nxt sc s l) as [s1|] eqn:S; [|discriminate].
    pose proof (xstarts_step nxt sc s l s1 S) as E.
    destruct l as [l|now id rm ad ok r]; cbn [xplain] in *.
    + cbn [existsb] in N. apply orb_false_iff in N. destruct N as [N1 N2].
      rewrite (IH s1 s' N2 H), E.
      destruct l; try discriminate N1; cbn [vstarts_of]; try reflexivity.
      cbn [rev]. rewrite <- app_assoc. reflexivity.
    + rewrite (IH s1 s' N H), E. reflexivity.
Qed.

Theorem XC04_predicate_holds_safe nxt sc tr s :
  xrun nxt sc vsys_init tr = Some s -> xsafe nxt sc vsys_init tr = true ->
  existsb is_new (tl (xplain tr)) = false -> vc04_ok (xplain tr) = true.
Proof.
  intros H Safe N. destruct tr as [|l0 tr]; [reflexivity|].
  pose proof (XC04_at_most_once_safe nxt sc (l0 :: tr) s H Safe) as HN.
  cbn [xrun] in H. destruct (xsys_step nxt sc vsys_init l0) as [s0|] eqn:S0; [|discriminate].
  destruct l0 as [l0|now id rm ad ok r].
  - cbn [xplain tl] in N.
    assert (E0 : vs_starts s0 = [] /\ vstarts_of (xplain (XL l0 :: tr)) = vstarts_of (xplain tr)).
    { pose proof (xstarts_step nxt sc vsys_init (XL l0) s0 S0) as X. destruct l0; cbn [xplain vstarts_of]; auto.
      cbn [xsys_step] in S0. unfold vsys_step in S0. cbn in S0. discriminate S0. }
    destruct E0 as [E0 E1].
    rewrite (xstarts_run nxt sc tr s0 s N H), E0, app_nil_r, map_rev in HN.
    rewrite vc04_ok_nd04, E1. apply nd04_spec; [|intros x _ []].
    eapply Permutation_NoDup; [apply Permutation_sym; apply Permutation_rev | exact HN].
  - (* a split is not accepted in the initial state *)
    cbn [xsys_step] in S0. destruct (gtime_eqb now (vs_now vsys_init) && head_bound vsys_init id); [|discriminate].
    destruct (v_mark_disp_split nxt vsys_init id rm ad) as [[s1 ok'] x] eqn:M.
    destruct (Bool.eqb ok ok' && cret_eqb r (RRes x)); [|discriminate]. cbn in S0. discriminate S0.
Qed.
Print Assumptions XC04_predicate_holds_safe.

(* a trace without splits is safe, and the extended results specialise to those of VSysProofs.v *)
Theorem XC04_plain nxt sc tr s :
  xrun nxt sc vsys_init (map XL tr) = Some s -> NoDup (map (fun x => fst (fst x)) (vs_starts s)).
Proof. intros H. apply (XC04_at_most_once_safe nxt sc (map XL tr) s H). apply xsafe_plain. Qed.
Print Assumptions XC04_plain.

(* ================================================================================================ *)
(* The unrestricted statements are FALSE                                                            *)
(* ================================================================================================ *)
(* rows: entry 0 = "w" every minute from ex_t0; entry 1 = "w2" every minute from two minutes BEFORE ex_t0 (so that its
   first occurrence, at -1 min, sorts before the announced head).  Only entry 0 is scheduled initially. *)
Definition yex_tm := T (-120000000000) true.
Definition yex_prefix : list vlabel :=
  [VNew ex_t0 [(ex_row, ex_t0); (ex_row2, yex_tm)] [0%nat] true; VStartTimer ex_t0; VStepBegin; VCall CLtue (RBool false);
   VCall CTimerCh RUnit; VAdvance ex_t1; VFire;
   VCall CGetNext (RRes (RTask ex_obs)); VCall CNextSched (RTime (Some ex_t1)); VStepEnd (SNextTask true (Some ex_obs)) false;
   VStepBegin; VCall CLtue (RBool false)].
(* MarkAsDispatched("A"): Peek sees "A"; EditTask adds entry 1; Pop removes entry 1's first occurrence *)
Definition yex_split : xlabel := XSplitMark ex_t1 "A" [] [1%nat] true (RRes ROk).
(* "A" is fetched from the record, dispatched and started ... *)
Definition yex_rest1 : list vlabel :=
  [VCall (CGetById "A") (RRes (RTask ex_obs)); VStepEnd (SDispatched "A") false; VWorkStart "A" ex_t1 ex_obs].
(* ... entry 1 is removed again; the next Step finds the SAME pending occurrence (insertion number 1), announces it
   under the same id "A", dispatches it (an ordinary MarkAsDispatched this time) and starts it a second time *)
Definition yex_rest2 : list vlabel :=
  [VEdit ex_t1 [1%nat] [] true; VStepBegin; VCall CLtue (RBool false); VCall CTimerCh RUnit; VFire;
   VCall CGetNext (RRes (RTask ex_obs)); VCall CNextSched (RTime (Some ex_t1)); VStepEnd (SNextTask true (Some ex_obs)) false;
   VStepBegin; VCall CLtue (RBool false); VCall (CMarkDisp "A") (RRes ROk); VCall (CGetById "A") (RRes (RTask ex_obs));
   VStepEnd (SDispatched "A") false; VWorkStart "A" ex_t1 ex_obs].
Definition yex_trace : list xlabel := (map XL yex_prefix ++ yex_split :: map XL (yex_rest1 ++ yex_rest2))%list.

Definition yex_s0 : vsys :=
  match vrun ex_nxt scfg_fixed vsys_init yex_prefix with Some s => s | None => vsys_init end.
Definition yex_s1 : vsys :=
  match xsys_step ex_nxt scfg_fixed yex_s0 yex_split with Some s => s | None => vsys_init end.

(* the clause w_pc of VI4, negated *)
Lemma vi4_pc_fails nxt s k t id ins :
  VI4 nxt s -> vs_pc s = PDisp2 k t -> t_id t = id -> rec_get (vs_record s) id <> None ->
  vs_ids s = [(ins, id)] -> In ins (map pt_ins (cr_pending (vs_cron s))) -> False.
Proof.
  intros J4 Epc Eid Erec Eids Hin. pose proof (w_pc nxt s J4) as X. rewrite Epc, Eid in X.
  destruct (X Erec) as [_ (i & Hi & Hn)]. rewrite Eids in Hi. destruct Hi as [E|[]]. inv E.
  apply in_map_iff in Hin. destruct Hin as (p & Ep & Hp). exact (Hn p Hp Ep).
Qed.

Theorem XVI4_not_preserved :
  vrun ex_nxt scfg_fixed vsys_init yex_prefix = Some yex_s0
  /\ VI3 (sc_clock_check scfg_fixed = true) True yex_s0 /\ VI4 ex_nxt yex_s0
  /\ xsys_step ex_nxt scfg_fixed yex_s0 yex_split = Some yex_s1
  /\ VI3 (sc_clock_check scfg_fixed = true) True yex_s1
  /\ ~ VI4 ex_nxt yex_s1
  (* the clause that fails, spelled out: at PDisp2 the record has "A", "A" is bound to insertion number 1 only,
     and insertion number 1 is still pending (next to the re-scheduled occurrence of the other entry) *)
  /\ vs_pc yex_s1 = PDisp2 KStep ex_obs /\ rec_get (vs_record yex_s1) "A" = Some ex_obs
  /\ vs_ids yex_s1 = [(1%nat, "A")]
  /\ xpend (vs_cron yex_s1) = [(1%nat, ex_t1, "w"); (3%nat, ex_t0, "w2")]
  (* between the Peek and the Pop: the head is the other entry's occurrence *)
  /\ xpend (fst (edit ex_nxt (vs_cron yex_s0) ex_t1 [] [1%nat]))
     = [(1%nat, ex_t1, "w"); (2%nat, T (-60000000000) true, "w2")]
  /\ split_removes_head ex_nxt yex_s0 "A" [] [1%nat] = false.
Proof.
  assert (R0 : vrun ex_nxt scfg_fixed vsys_init yex_prefix = Some yex_s0) by (vm_compute; reflexivity).
  assert (R1 : xsys_step ex_nxt scfg_fixed yex_s0 yex_split = Some yex_s1) by (vm_compute; reflexivity).
  destruct (vi34_run_any ex_nxt scfg_fixed yex_prefix _ _ (VI3_init _ _) (VI4_init ex_nxt) R0) as [I3 I4].
  assert (Epc : vs_pc yex_s1 = PDisp2 KStep ex_obs) by (vm_compute; reflexivity).
  assert (Erec : rec_get (vs_record yex_s1) "A" = Some ex_obs) by (vm_compute; reflexivity).
  assert (Eids : vs_ids yex_s1 = [(1%nat, "A")]) by (vm_compute; reflexivity).
  assert (Epend : xpend (vs_cron yex_s1) = [(1%nat, ex_t1, "w"); (3%nat, ex_t0, "w2")]) by (vm_compute; reflexivity).
  assert (Eins : map pt_ins (cr_pending (vs_cron yex_s1)) = [1%nat; 3%nat]) by (vm_compute; reflexivity).
  split; [exact R0|]. split; [exact I3|]. split; [exact I4|]. split; [exact R1|].
  split; [eapply xvi3_step; [exact I3|exact R1]|]. split.
  - intros J4. apply (vi4_pc_fails ex_nxt yex_s1 KStep ex_obs "A" 1%nat J4 Epc eq_refl).
    + rewrite Erec. discriminate.
    + exact Eids.
    + rewrite Eins. left. reflexivity.
  - split; [exact Epc|]. split; [exact Erec|]. split; [exact Eids|]. split; [exact Epend|].
    split; vm_compute; reflexivity.
Qed.
Print Assumptions XVI4_not_preserved.

Theorem XC04_at_most_once_refuted :
  exists tr s, xrun ex_nxt scfg_fixed vsys_init tr = Some s /\ xsplits tr = 1%nat
    /\ map (fun x => fst (fst x)) (vs_starts s) = ["A"; "A"]
    /\ ~ NoDup (map (fun x => fst (fst x)) (vs_starts s))
    /\ existsb is_new (tl (xplain tr)) = false      (* one store *)
    /\ vc04_ok (xplain tr) = false /\ vc03_ok (xplain tr) = true
    /\ xsafe ex_nxt scfg_fixed vsys_init tr = false
    (* the pinned scheduler accepts it as well *)
    /\ xsys_check ex_nxt scfg_pinned vsys_init tr 0 = None.
Proof.
  exists yex_trace. eexists. split; [vm_compute; reflexivity|]. split; [vm_compute; reflexivity|].
  assert (E : forall a b : list string, a = b -> b = ["A"; "A"] -> ~ NoDup a).
  { intros a b -> ->. intros HN. inv HN. apply H1. left. reflexivity. }
  split; [vm_compute; reflexivity|]. split; [eapply E; [reflexivity | vm_compute; reflexivity]|].
  split; [vm_compute; reflexivity|]. split; [vm_compute; reflexivity|]. split; [vm_compute; reflexivity|].
  split; vm_compute; reflexivity.
Qed.
Print Assumptions XC04_at_most_once_refuted.
