(* Proofs/DispProofs.v — dispatch protocol (C09) and pool LTS (C08). *)
From GK Require Import Disp.
From Coq Require Import Lia.

(* ---------- C09 ---------- *)
Theorem exec_satisfies_C09 : forall i, di_wf i = true -> p_C09 i (exec true i) = true.
Proof.
  intros [f r d c w] H. destruct f, r, d, c; destruct w as [[e|]| |]; cbn in *;
    try reflexivity; try discriminate; rewrite ?String.eqb_refl; reflexivity.
Qed.

Theorem exec_one_result_then_close : forall i, do_err (exec true i) = None ->
  do_closed (exec true i) = true /\ exists v, do_results (exec true i) = [v].
Proof.
  intros [f r d c w]. destruct f, r, d, c; destruct w as [[e|]| |]; cbn; intros H; try discriminate; split; eauto.
Qed.

Theorem exec_failed_never_runs : forall pr i, do_err (exec pr i) <> None ->
  do_ran (exec pr i) = false /\ do_results (exec pr i) = [].
Proof.
  intros pr [f r d c w]. destruct f, r, d, c; destruct w as [[e|]| |]; cbn; intros H; try (exfalso; apply H; reflexivity); auto.
Qed.

Theorem exec_result_value : forall i, di_wf i = true -> do_err (exec true i) = None ->
  do_results (exec true i) =
  [ if negb (di_registered i) then RVNotFound
    else match di_cancel i with
         | CancelInFetch => RVCanceled
         | _ => match di_work i with
                | WReturn None => RVNil
                | WReturn (Some e) => RVErr e
                | WPanic => RVPanic
                | WBlock => match di_deadline i with DlPast => RVDeadline | _ => RVCanceled end
                end
         end ].
Proof.
  intros [f r d c w] Hw. destruct f, r, d, c; destruct w as [[e|]| |]; cbn in *; intros H; try discriminate; reflexivity.
Qed.

(* the pinned executor loses the result of a panicking work function *)
Theorem exec_pinned_refuted : exists i, di_wf i = true /\ p_C09 i (exec false i) = false.
Proof. exists (mkDI FetchOk true DlNone CancelNever WPanic). split; reflexivity. Qed.

(* ---------- C08 ---------- *)
Definition pool_inv (p : pool) : Prop :=
  (forall r, In r (p_retired p) -> List.length (p_running p) <= p_target p + r /\ r <= List.length (p_running p))%nat
  /\ (forall k, In k (p_running p) -> In k (p_started p))
  /\ NoDup (p_running p).

Lemma mem_in k l : mem k l = true <-> In k l.
Proof. unfold mem. rewrite existsb_exists. split; [intros (x & H & E); apply Nat.eqb_eq in E; subst; auto | intros H; exists k; split; auto using Nat.eqb_refl]. Qed.
Lemma in_nat_dedup x l : In x (nat_dedup l) -> In x l.
Proof. induction l as [|y l IH]; cbn; auto. destruct (mem y l); cbn; intuition. Qed.
Lemma del_length k l : NoDup l -> In k l -> S (List.length (del k l)) = List.length l.
Proof.
  induction l as [|x l IH]; cbn; intros N H; [tauto|]. inversion N; subst.
  destruct (Nat.eqb_spec x k); cbn.
  - subst. f_equal. clear -H2. induction l as [|y l IH]; cbn; auto.
    destruct (Nat.eqb_spec y k); cbn; [subst; exfalso; apply H2; cbn; auto|]. f_equal. apply IH. intros X; apply H2; cbn; auto.
  - f_equal. destruct H; [congruence|]. apply IH; auto.
Qed.
Lemma del_in x k l : In x (del k l) -> In x l /\ x <> k.
Proof. unfold del. rewrite filter_In. intros [H E]. split; auto. destruct (Nat.eqb_spec x k); [discriminate | auto]. Qed.
Lemma del_nodup k l : NoDup l -> NoDup (del k l).
Proof. unfold del. apply NoDup_filter. Qed.

Lemma pool_inv_init : pool_inv pool_init.
Proof. split; [intros r [<-|[]]; cbn; lia | split; [intros k [] | constructor]]. Qed.

Ltac pinv := split; [intros r Hin; cbn in Hin |- * | split; [intros k' Hk'; cbn in Hk' |- * | cbn]].

Theorem pool_inv_step p e p' : pool_inv p -> pstep p e = Some p' -> pool_inv p'.
Proof.
  intros (Hr & Hs & Hn) H. destruct e; cbn in H.
  - destruct (mem k (p_waiting p) || mem k (p_started p)); inversion H; subst; clear H. pinv; auto.
  - destruct (mem k (p_waiting p) && negb (mem k (p_started p)) && _) eqn:C; inversion H; subst; clear H.
    apply andb_prop in C. destruct C as [C _]. apply andb_prop in C. destruct C as [_ C].
    apply Bool.negb_true_iff in C. pinv.
    + apply filter_In in Hin. destruct Hin as [H1 H2]. apply Nat.ltb_lt in H2. apply Hr in H1. lia.
    + destruct Hk' as [<-|H']; auto.
    + constructor; auto. intros X. apply Hs in X. apply mem_in in X. congruence.
  - destruct (mem k (p_running p)) eqn:M; inversion H; subst; clear H. apply mem_in in M.
    pose proof (del_length k _ Hn M) as L. pinv.
    + apply filter_In in Hin. destruct Hin as [H1 H2]. apply Nat.leb_le in H2. apply in_nat_dedup in H1. apply in_flat_map in H1.
      destruct H1 as (r0 & Hr0 & Hx). apply Hr in Hr0. destruct r0; cbn in Hx.
      * destruct Hx as [<-|[]]. lia.
      * destruct Hx as [<-|[<-|[]]]; lia.
    + apply del_in in Hk'. apply Hs. tauto.
    + apply del_nodup. exact Hn.
  - destruct (mem k (p_waiting p) && mem k (p_started p)); inversion H; subst; clear H. pinv; auto.
  - destruct (mem k (p_waiting p) && mem k (p_cancelled p) && negb (mem k (p_started p))); inversion H; subst; clear H.
    pinv; auto.
  - inversion H; subst; clear H. pinv; auto.
  - inversion H; subst; clear H. pinv; auto. apply Hr in Hin. lia.
  - inversion H; subst; clear H. split; [|split; [exact Hs | exact Hn]].
    intros r Hin. cbn [p_retired p_running p_target] in Hin |- *.
    apply filter_In in Hin. destruct Hin as [H1 H2]. apply Nat.leb_le in H2. apply in_nat_dedup in H1. apply in_flat_map in H1.
    destruct H1 as (r0 & Hr0 & H1). apply in_map_iff in H1. destruct H1 as (j & <- & Hj). apply in_seq in Hj.
    apply Hr in Hr0. lia.
Qed.

Fixpoint has_remove (tr : list pev) : bool :=
  match tr with [] => false | PRemove _ :: _ => true | _ :: r => has_remove r end.

Theorem pool_inv_run tr : forall p p', pool_inv p -> prun p tr = Some p' -> pool_inv p'.
Proof.
  induction tr as [|e tr IH]; cbn; intros p p' I H; [inversion H; subst; exact I|].
  destruct (pstep p e) as [p1|] eqn:S; [|discriminate]. eapply IH; [|exact H]. eapply pool_inv_step; eauto.
Qed.

(* without removals the set of possibilities stays {0}: at most [target] work functions run at once *)
Lemma retired_zero_step p e p' : (forall d, e <> PRemove d) -> p_retired p = [0%nat] -> pstep p e = Some p' ->
  p_retired p' = [0%nat].
Proof.
  intros Ne R H. destruct e; unfold pstep in H; rewrite ?R in H.
  - destruct (_ || _); inversion H; subst; auto.
  - cbn [filter] in H. destruct (Nat.ltb _ _); cbn [negb andb] in H.
    + destruct (mem k (p_waiting p) && negb (mem k (p_started p))); cbn in H; inversion H; subst; auto.
    + rewrite !Bool.andb_false_r in H. discriminate.
  - destruct (mem k (p_running p)); inversion H; subst; auto.
  - destruct (_ && _); inversion H; subst; auto.
  - destruct (_ && _ && _); inversion H; subst; auto.
  - inversion H; subst; auto.
  - inversion H; subst; auto.
  - exfalso. eapply Ne; reflexivity.
Qed.
Theorem bound_without_resize tr : forall p p', pool_inv p -> p_retired p = [0%nat] -> has_remove tr = false ->
  prun p tr = Some p' -> (List.length (p_running p') <= p_target p')%nat.
Proof.
  induction tr as [|e tr IH]; cbn; intros p p' I R Hr H.
  - inversion H; subst. destruct I as (Hi & _). specialize (Hi 0%nat). rewrite R in Hi. cbn in Hi. lia.
  - destruct (pstep p e) as [p1|] eqn:S; [|discriminate].
    assert (Ne : forall d, e <> PRemove d) by (intros d ->; discriminate).
    eapply (IH p1); eauto using pool_inv_step, retired_zero_step. destruct e; auto; discriminate.
Qed.

(* a call starts at most once, and never after its Dispatch returned the context error *)
Theorem start_at_most_once p k p' : pstep p (PStart k) = Some p' -> pstep p' (PStart k) = None.
Proof.
  cbn. destruct (mem k (p_waiting p) && negb (mem k (p_started p)) && _); intros H; inversion H; subst; clear H; cbn.
  rewrite Nat.eqb_refl. cbn. rewrite Bool.andb_false_r. reflexivity.
Qed.
Theorem no_start_after_ctx_return p k p' : pstep p (PReturnCtx k) = Some p' -> pstep p' (PStart k) = None.
Proof.
  cbn. destruct (mem k (p_waiting p) && mem k (p_cancelled p) && negb (mem k (p_started p))); intros H; inversion H; subst; clear H; cbn.
  rewrite Nat.eqb_refl. cbn. rewrite Bool.andb_false_r. reflexivity.
Qed.
(* started stays started: the two facts above hold for the rest of any trace *)
Lemma started_mono p e p' k : pstep p e = Some p' -> mem k (p_started p) = true -> mem k (p_started p') = true.
Proof.
  intros H M. destruct e; cbn in H;
    repeat match type of H with (if ?c then _ else _) = _ => destruct c end; inversion H; subst; cbn; auto;
    unfold mem in *; cbn; rewrite M; apply Bool.orb_true_r.
Qed.
(* a Dispatch returns a channel only for a call a worker accepted; the context error only for a cancelled one *)
Theorem return_ok_only_accepted p k p' : pstep p (PReturnOk k) = Some p' -> mem k (p_started p) = true.
Proof. cbn. destruct (mem k (p_waiting p)); destruct (mem k (p_started p)); cbn; intros H; try discriminate; reflexivity. Qed.
Theorem return_ctx_only_cancelled p k p' : pstep p (PReturnCtx k) = Some p' -> mem k (p_cancelled p) = true.
Proof. cbn. destruct (mem k (p_waiting p)); destruct (mem k (p_cancelled p)); cbn; intros H; try discriminate; reflexivity. Qed.
