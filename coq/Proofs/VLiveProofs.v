(* Proofs/VLiveProofs.v - the LIVENESS half of C05 in the cron configuration (VSys.v: Scheduler over
   NewVolatileTaskRepo(CronStore)):
     "If a driver keeps stepping the scheduler (retrying a step that reported an error), the result queue is running
      and a worker is free, then every scheduled task whose time has come is dispatched after finitely many steps."
   Proofs/VRestProofs.v has the safety half (at rest nothing pending is due).  Here: from every reachable state, with no
   further user action (VNew / VEdit / VStartTimer) and no clock advance (VAdvance), the driver and the workers ALONE -
   labels VStepBegin, VRetryBegin, VCall, VFire, VStepEnd, VWorkStart, VWorkEnd ([driver_label] / [driver_only]) - bring
   the system to rest:  vs_pc = PSelect, no pending fire, vs_results = vs_accepted = vs_running = []  ([at_rest]).
   The model (VSys.v) includes the transient failure of the store's Pop inside MarkAsDispatched: the state s may be the
   result of such failures; the continuation is fault-free and disciplined by construction (next_ok: next_driver_label
   never proposes a failed MarkAsDispatched and answers a DispatchErr with Retry(DispatchErr)).

   THE UNCONDITIONAL STATEMENT IS FALSE (section 7; both witnesses are accepted traces, vtimer_started = true)
     VC05_quiescence_refuted_schedule_at_now   schedule "every minute" (it advances by 60 s at every occurrence), but the
         cron row carries the ScheduleAtNow mutator ("ngicks.ScheduleAtNow" in Meta, pt_muts = [MNow]): every Pop pushes
         the entry's next occurrence scheduled at the present clock reading, i.e. due at once; resetTimer fires at once;
         the driver dispatches it; and so on for ever.  From s_now NO driver-only continuation reaches rest
         (forall q s', driver_only q -> vrun s_now q = Some s' -> at_rest s' = false); VC05_spin_computed: 400 labels
         later 21 tasks have started and the head is due again.  So a bound on the schedule alone is not enough.
     VC05_quiescence_refuted_stuck_schedule    no mutator, but a schedule function that does not advance (nxt e t = T 0):
         same conclusion.  (Instants are integers - nanoseconds -, so "the next occurrence is strictly later" IS progress
         by a fixed amount, d = 1: occurrences cannot accumulate below now.  See the _strict forms.)
     Both are instances of spin_never_rests: in a reachable state of a started store in which every pending occurrence
     is due and "re-spins" ([Respin]: whatever Pop pushes for it is due at once) no driver-only continuation q with
     vdriver_ok (tr ++ q) (the driver answers DispatchErr with Retry, or no Pop fails) reaches rest; without that
     hypothesis a failed Pop answered by Step strands the system "at rest": VC05_spin_stranded
     - proved from the safety theorem VC05_rest_no_due_state and driver_step_cron (a driver / worker label leaves the clock
     alone, and the pending set too unless the store pops).

   PROVED, for EVERY schedule function nxt, EVERY scheduler variant sc (no field of sc matters: scfg_pinned included)
     VC05_no_deadlock     accepted trace from vsys_init reaching s, at_rest s = false  ==>  next_driver_label nxt s = Some l,
                          l is a driver / worker label and vsys_step nxt sc s l <> None.  The monitor never gets stuck on
                          driver actions.  (No vtimer_started hypothesis.)  VC05_next_label_none_iff_rest: in a reachable
                          state next_driver_label proposes nothing exactly at rest.
     VC05_one_round       accepted trace reaching s  ==>  there is a driver-only continuation q, vrun s q = Some s', clock
                          unchanged, after which EITHER s' is at rest and the store's pending set / insertion counter are
                          those of s, OR the head h of s has been popped: no pending occurrence of s' has h's insertion
                          number and cr_ins has grown by exactly one (progress).
   PROVED under  (H1) exists d > 0 with  inst t + d <= inst (nxt e t)  for all e t  (the schedule advances by at least d)
                 (H2) no pending occurrence of s carries ScheduleAtNow:  existsb is_now (pt_muts p) = false
     (H2 is a hypothesis on the state s only: Pop hands the mutators of the popped occurrence on to the next one, and the
      continuation contains no EditTask.  RandomizeScheduledAt mutators are allowed: they shift by a constant.)
     VC05_quiescence_reachable   accepted trace reaching s (ANY reachable s, vtimer_started not needed)  ==>  exists q s',
                          driver_only q, vrun nxt sc s q = Some s', s' at rest (all five conditions), vs_now s' = vs_now s,
                          pend_ext (vs_cron s) (vs_cron s')  (what is pending in s' was pending in s or is newer).
     VC05_every_due_occurrence_is_served   ... and vtimer_started tr = true, vdriver_ok tr = true  ==>  additionally (by
                          VC05_rest_no_due_state on tr ++ q, driver_ok_app) nothing pending in s' is due, and every occurrence that was pending and due in s is no
                          longer pending in s' (no pending occurrence of s' has its insertion number) - the catch-up
                          occurrences pushed after it and due as well have been served too.
     VC05_quiescence_reachable_strict / VC05_every_due_occurrence_is_served_strict   the same with (H1) replaced by
                          forall e t, inst t < inst (nxt e t)   (d = 1: instants are integers).
     VC05_live_catch_up_computed / VC05_live_nonvacuous: a row "every minute", the clock jumps 3 min 20 s while the
     scheduler blocks in select: [drive] (the continuation as a program, drive_sound) serves 00:01, 00:02, 00:03 in 57
     labels, comes to rest armed for 00:04, vall_ok = true on the whole trace; the theorem applies to that state.
     VC05_live_retry_computed / VC05_live_retry_by_theorem: a Pop has failed and Step has returned DispatchErr; [drive]
     answers with Retry(DispatchErr), the task is found, dispatched and run; rest in 15 labels.

   WHAT IS MISSING
     - A row with ScheduleAtNow AND a strictly positive RandomizeScheduledAt offset does come to rest, but H2 excludes it.
     - Only EXISTENCE of a continuation is proved (the one computed by next_driver_label: workers first, the driver
       answers a DispatchErr with Retry and everything else with Step); not that every fair interleaving of driver and
       workers reaches rest.
     - No bound on the length of q is stated (the proof gives one: the measure below).

   HOW
     next_driver_label s : what the code does next, with the results the model computes - workers first (VWorkEnd id ONil
       for the first running id, VWorkStart for the first accepted task), then by program counter; at PFire1 the head is
       returned under the id it is known by, or under fresh_id (a string longer than every id seen) at first sight
       (head_accept_obs).  PRetryTD, the one program counter at which the monitor accepts no call, is dead in this
       configuration: invariant NT (MarkAsDone of the volatile repository cannot fail, so no TaskDone state ever carries
       an update error and Retry(TaskDone) never starts).  PDisp1 / PRetryDE take real steps: GetById again, then the
       model's own MarkAsDispatched (v_mark_disp).
     drive_step  Inv s (= VI3, VI4, R False, NT), next_driver_label s = Some l  ==>  l is accepted, the clock is unchanged and
       EITHER arena / entries / pending / cr_ins are unchanged and Phi decreases, OR the store pops its head [Popped].
       Phi sc s = 40 * (nres + tok) + rank pc + 2 |accepted| + |running| :
         nres = |results| + |accepted| + |running|   (each costs one StepEnd);
         tok  = an upper bound on the other StepEnds still to come, from pc, getNextErr, lastTask, "fire pending" and
                "head due" (constant while the store does not pop): 2 for an announced task (its dispatch and the run it
                starts), 3 for a fire that will be seen (announce, dispatch, result), where the fire that WILL be seen is
                the pending one, or - with getNextErr set, the timer restart coming first - "head due" (start_pending:
                after the scheduler's StartTimer a fire is pending iff the head is due; stop_pending; Inv17);
                a stale PFire2 is charged by what its NextScheduled comparison will answer ([announce]);
                a Retry(DispatchErr t) - owed at PIdle / PEnd (SDispatchErr t), running at PRetryDE t - by what its
                GetById will find ([tokR]: nothing: 1; a Scheduled task not yet due: 1 and getNextErr gets set;
                otherwise 2: the dispatch and either the run it starts or one more DispatchErr round, which then
                finds nothing because a MarkAsDispatched that does not pop deletes the record);
         rank = position inside Step (the program-counter graph is acyclic between two StepEnds).
     pop_measure (H1, H2)  P4 = sum over pending p of  2 * gof p + dueb p,  gof p = how many occurrences of p's entry
       (p included) can be due at this clock reading = (now + 1ms - shift - occ) / d + 1 (0 if negative), shift = the
       constant the RandomizeScheduledAt mutators add (apply_mutators_sched, wrap_sched), dueb p = 1 iff p is due.
       A Pop strictly decreases P4, or leaves it unchanged with the head not due before and after (possible for the
       pinned scheduler, which announces without consulting the clock): then Phi decreases ([Popped], third clause).
     quiesce_inv  nested well-founded induction on (P4, Phi).  one_round_inv: induction on Phi alone, stopping at a Pop.
   Compile time: about 20 s. *)
From GK Require Import VSys.
From GK.Proofs Require Import BaseLemmas RepoProofs2 CronProofs CronInv SysProofs VSysProofs VRestProofs.
From Coq Require Import ZifyBool Lia.

(* ================================================================================================ *)
(* 0. Small tools                                                                                    *)
(* ================================================================================================ *)
(* a string that does not occur in a given list: longer than all of them *)
Fixpoint rep_a (n : nat) : string := match n with O => EmptyString | S k => String "a"%char (rep_a k) end.
Fixpoint maxlen (l : list string) : nat :=
  match l with [] => O | x :: r => Nat.max (String.length x) (maxlen r) end.
Definition fresh_id (l : list string) : string := rep_a (S (maxlen l)).
Lemma rep_a_length n : String.length (rep_a n) = n.
Proof. induction n as [|n IH]; cbn; [reflexivity | rewrite IH; reflexivity]. Qed.
Lemma maxlen_ge l x : In x l -> (String.length x <= maxlen l)%nat.
Proof.
  induction l as [|y l IH]; cbn [maxlen In]; [contradiction|]. intros [->|H]; [lia|]. specialize (IH H). lia.
Qed.
Lemma fresh_id_notin l : ~ In (fresh_id l) l.
Proof.
  intros H. apply maxlen_ge in H. unfold fresh_id in H. rewrite rep_a_length in H. lia.
Qed.

Lemma sstate_eqb_refl st : sstate_eqb st st = true.
Proof.
  destruct st as [| |ok t|t|i|i o u|]; cbn; auto.
  - rewrite Bool.eqb_reflx. cbn. apply otask_eqb_eq. reflexivity.
  - apply String.eqb_refl.
  - apply String.eqb_refl.
  - rewrite String.eqb_refl. cbn. destruct o; cbn; rewrite ?String.eqb_refl; cbn; apply Bool.eqb_reflx.
Qed.
Lemma cret_eqb_refl r : cret_eqb r r = true.
Proof.
  destruct r as [b| |x|t]; cbn; auto.
  - apply Bool.eqb_reflx.
  - apply res_eqb_eq. reflexivity.
  - apply ogtime_eqb_eq. reflexivity.
Qed.

Definition driver_label (l : vlabel) : bool :=
  match l with
  | VStepBegin | VRetryBegin _ | VCall _ _ | VFire | VStepEnd _ _ | VWorkStart _ _ _ | VWorkEnd _ _ => true
  | _ => false
  end.
Definition driver_only (q : list vlabel) : bool := forallb driver_label q.

Lemma driver_flag st l : driver_label l = true -> flag_next st l = st.
Proof. destruct l; cbn; intros H; try discriminate H; reflexivity. Qed.
Lemma driver_only_flag q : forall st, driver_only q = true -> vstarted_flag st q = st.
Proof.
  induction q as [|l q IH]; intros st H; cbn [vstarted_flag]; [reflexivity|].
  cbn in H. apply andb_true_iff in H. destruct H as [H1 H2]. rewrite (driver_flag st l H1). apply IH. exact H2.
Qed.
Lemma driver_only_app a b : driver_only (a ++ b) = driver_only a && driver_only b.
Proof. unfold driver_only. apply forallb_app. Qed.

(* ================================================================================================ *)
(* 1. Retry(TaskDone) never happens in this configuration (MarkAsDone of the volatile repository     *)
(*    cannot fail): PRetryTD - the one program counter at which the monitor accepts no call - is dead *)
(* ================================================================================================ *)
Definition NT (s : vsys) : Prop :=
  match vs_pc s with PRetryTD _ _ => False | PEnd (STaskDone _ _ u) _ => u = false | _ => True end
  /\ match vs_retry s with Some (STaskDone _ _ _) => False | _ => True end.

Section VLive.
  Variable nxt : nat -> gtime -> gtime.
  Notation vstep := (vsys_step nxt).

  Lemma NT_init : NT vsys_init.
  Proof. split; cbn; exact I. Qed.

  Lemma NT_step sc s l s' : NT s -> vstep sc s l = Some s' -> NT s'.
  Proof.
    unfold NT. intros [A B] H.
    destruct l; unfold vsys_step in H; cbv beta iota zeta in H.
    - destruct (cstep nxt cron_empty (CNew now rows initial)) as [c' r]. destruct (cres_eqb r (CRBool ok)); inv H. cbn. auto.
    - destruct (gtime_eqb now (vs_now s)); [|discriminate].
      destruct (cstep nxt (vs_cron s) (CEdit now removed added)) as [c' r]. destruct (cres_eqb r (CRBool ok)); inv H. vf. auto.
    - destruct (gtime_eqb now (vs_now s)); inv H. vf. auto.
    - destruct (inst (vs_now s) <=? inst now); inv H. vf. auto.
    - destruct (vs_pc s); inv H. vf. auto.
    - destruct (vs_pc s); try discriminate. destruct (vs_retry s) as [p|] eqn:Rt; [|discriminate].
      destruct (sstate_eqb p prev) eqn:E; [|discriminate].
      destruct prev; inv H; vf; auto. destruct p; try discriminate E. contradiction.
    - destruct (vs_pc s) eqn:P; destruct c; cbv beta iota in H; try discriminate H;
        repeat match type of H with
               | (let (_, _) := v_mark_disp nxt s ?i in _) = _ =>
                 let Q := fresh "Q" in
                 pose proof (v_mark_disp_frame nxt s i) as Q;
                 destruct (v_mark_disp nxt s i) as [s1 x]; specialize (Q s1 x eq_refl);
                 destruct Q as (Q1 & Q2 & Q3 & Q4 & Q5 & Q6 & Q7 & Q8 & Q9 & Q10 & _)
               | (if ?b then _ else _) = _ => destruct b
               | match ?b with _ => _ end = _ => destruct b
               end; try discriminate H; inv H;
        repeat match goal with |- context [if ?b then _ else _] => destruct b end;
        vf; rewrite ?Q10; auto.
    - destruct (vs_pc s); try discriminate. destruct (tm_pending (cr_timer (vs_cron s))); inv H. vf. auto.
    - destruct (vs_pc s) eqn:P; try discriminate.
      + repeat match type of H with
               | (if ?b then _ else _) = _ => destruct b
               | match ?b with _ => _ end = _ => destruct b
               end; try discriminate H; inv H; vf; auto.
      + match type of H with (if ?b then _ else _) = _ => destruct b end; inv H. vf. split; [exact I|].
        destruct st0; auto; try (destruct ok; exact I). subst. exact I.
    - repeat match type of H with
             | (if ?b then _ else _) = _ => destruct b
             | match ?b with _ => _ end = _ => destruct b
             end; try discriminate H; inv H; vf; auto.
    - repeat match type of H with
             | (if ?b then _ else _) = _ => destruct b
             | match ?b with _ => _ end = _ => destruct b
             end; try discriminate H; inv H; vf; auto.
    - repeat match type of H with
             | (if ?b then _ else _) = _ => destruct b
             end; try discriminate H; inv H; auto.
    - discriminate H.
  Qed.

  (* ================================================================================================ *)
  (* 2. What the driver and the workers do next                                                        *)
  (* ================================================================================================ *)
  Definition at_rest (s : vsys) : bool :=
    match vs_pc s with PSelect => true | _ => false end
    && negb (tm_pending (cr_timer (vs_cron s)))
    && match vs_results s with [] => true | _ => false end
    && match vs_accepted s with [] => true | _ => false end
    && match vs_running s with [] => true | _ => false end.

  Definition get_by_id_ret (s : vsys) (id : string) : cret :=
    RRes (match rec_get (vs_record s) id with Some t' => RTask t' | None => RErr EIdNotFound end).
  (* the head as the store returns it: under the id it is known by, or - first sight - under a fresh uuid *)
  Definition head_obs (s : vsys) (h : ptask) : task :=
    with_id (pt_task h)
            (match id_of (vs_ids s) (pt_ins h) with Some i => i | None => fresh_id (map snd (vs_ids s)) end).

  Definition next_driver_label (s : vsys) : option vlabel :=
    match vs_running s with
    | id :: _ => Some (VWorkEnd id ONil)
    | [] =>
    match vs_accepted s with
    | (id, t) :: _ => Some (VWorkStart id (vs_now s) t)
    | [] =>
    match vs_pc s with
    | PIdle => match vs_retry s with
               | Some (SDispatchErr t) => Some (VRetryBegin (SDispatchErr t))   (* a DispatchErr is answered by Retry *)
               | _ => Some VStepBegin
               end
    | PStep0 => Some (if vs_err s then VCall CStop RUnit else VCall CLtue (RBool false))
    | PRestart1 _ => Some (VCall CStop RUnit)
    | PRestart2 _ => Some (VCall CStart RUnit)
    | PRestart3 _ => Some (VCall CLtue (RBool false))
    | PStepMain =>
      match vs_last s with
      | None => Some (VCall CTimerCh RUnit)
      | Some t => Some (VCall (CMarkDisp (t_id t)) (RRes (snd (v_mark_disp nxt s (t_id t)))))
      end
    | PSelect =>
      match vs_results s with
      | (id, OCanceled) :: _ => Some (VStepEnd (STaskDone id OCanceled false) false)
      | (id, o) :: _ => Some (VCall (CMarkDone id (outcome_err o)) (RRes ROk))
      | [] => if tm_pending (cr_timer (vs_cron s)) then Some VFire else None
      end
    | PFire1 =>
      match pt_min None (cr_pending (vs_cron s)) with
      | Some h => Some (VCall CGetNext (RRes (RTask (head_obs s h))))
      | None => Some (VCall CGetNext (RRes (RErr EExhausted)))
      end
    | PFire2 _ => Some (VCall CNextSched (RTime (next_scheduled (vs_cron s))))
    | PDisp1 _ t => Some (VCall (CMarkDisp (t_id t)) (RRes (snd (v_mark_disp nxt s (t_id t)))))
    | PDisp2 _ t => Some (VCall (CGetById (t_id t)) (get_by_id_ret s (t_id t)))
    | PRetryDE t => Some (VCall (CGetById (t_id t)) (get_by_id_ret s (t_id t)))
    | PRetryTD _ _ => None
    | PEnd st re => Some (VStepEnd st re)
    end end end.

  Lemma next_none s : next_driver_label s = None ->
    at_rest s = true \/ exists id o, vs_pc s = PRetryTD id o.
  Proof.
    unfold next_driver_label, at_rest. destruct (vs_running s) as [|i r]; [|discriminate].
    destruct (vs_accepted s) as [|[i t] a]; [|discriminate].
    destruct (vs_pc s); try discriminate; try (destruct (vs_err s); discriminate);
      try (destruct (vs_last s); discriminate); try (destruct (pt_min None _); discriminate).
    - destruct (vs_retry s) as [[]|]; discriminate.
    - destruct (vs_results s) as [|[i o] r]; [|destruct o; discriminate].
      destruct (tm_pending _); [discriminate|]. intros _. left. reflexivity.
    - intros _. right. eauto.
  Qed.

  (* ---- the measure ---- *)
  Definition due_head (c : cron) (now : gtime) : bool :=
    match pt_min None (cr_pending c) with Some h => inst (t_sched (pt_task h)) <=? inst now | None => false end.
  Definition hd_due (s : vsys) : bool := due_head (vs_cron s) (vs_now s).
  Definition fpend (s : vsys) : bool := tm_pending (cr_timer (vs_cron s)).
  Definition b2n (b : bool) : nat := if b then 1%nat else 0%nat.
  Definition effI (s : vsys) : bool := if vs_err s then hd_due s else fpend s.
  Definition effS (s : vsys) : bool := fpend s || (vs_err s && hd_due s).
  Definition lastn (s : vsys) : nat := match vs_last s with Some _ => 2%nat | None => 0%nat end.
  Definition announce (sc : scfg) (s : vsys) (next : task) : bool :=
    match next_scheduled (vs_cron s) with Some t => t_equal t (t_sched next) | None => false end
    && (negb (sc_clock_check sc) || negb (t_after (t_sched next) (vs_now s))).
  (* tok: an upper bound on the number of StepEnd still to come that are not owed to a queued / running / accepted task *)
  (* what a Retry(DispatchErr t) that begins now costs (it reads the record again: GetById) *)
  Definition tokR (s : vsys) (t : task) : nat :=
    match rec_get (vs_record s) (t_id t) with
    | None => 1 + lastn s + 3 * b2n (effI s)
    | Some t' =>
      match t_state t' with
      | Scheduled => if t_after (t_sched t') (vs_now s) then 1 + 3 * b2n (hd_due s) else 2 + lastn s + 3 * b2n (effI s)
      | _ => 2 + lastn s + 3 * b2n (effI s)
      end
    end%nat.
  Definition tok (sc : scfg) (s : vsys) : nat :=
    match vs_pc s with
    | PIdle => match vs_retry s with Some (SDispatchErr t) => tokR s t | _ => lastn s + 3 * b2n (effI s) end
    | PStep0 => lastn s + 3 * b2n (effI s)
    | PRestart1 KStep | PRestart2 KStep => lastn s + 3 * b2n (hd_due s)
    | PRestart3 KStep | PStepMain => lastn s + 3 * b2n (fpend s)
    | PRestart1 KRetry | PRestart2 KRetry => 1 + lastn s + 3 * b2n (hd_due s)
    | PRestart3 KRetry => 1 + lastn s + 3 * b2n (if vs_err s then hd_due s || fpend s else fpend s)
    | PSelect => lastn s + 3 * b2n (effS s)
    | PFire1 => 3 + 3 * b2n (fpend s)
    | PFire2 next => if announce sc s next then 3 + 3 * b2n (fpend s)
                     else 1 + 3 * b2n (if sc_err_on_mismatch sc then hd_due s else fpend s)
    | PDisp1 _ _ | PDisp2 _ _ => 2 + lastn s + 3 * b2n (effI s)
    | PRetryDE t => tokR s t
    | PEnd (SDispatchErr t) _ => 1 + tokR s t
    | PEnd _ _ => 1 + lastn s + 3 * b2n (effI s)
    | PRetryTD _ _ => 0
    end%nat.
  Definition rank (pc : spc) : nat :=
    match pc with
    | PIdle => 39 | PStep0 => 36 | PRestart1 _ => 33 | PRestart2 _ => 30 | PRestart3 _ => 27 | PStepMain => 24
    | PSelect => 21 | PFire1 => 18 | PFire2 _ => 15 | PRetryDE _ => 12 | PDisp1 _ _ => 9 | PDisp2 _ _ => 6
    | PRetryTD _ _ => 3 | PEnd _ _ => 0
    end%nat.
  Definition nres (s : vsys) : nat :=
    (List.length (vs_results s) + List.length (vs_accepted s) + List.length (vs_running s))%nat.
  Definition Phi (sc : scfg) (s : vsys) : nat :=
    (40 * (nres s + tok sc s) + rank (vs_pc s) + 2 * List.length (vs_accepted s) + List.length (vs_running s))%nat.

  Definition same_core (c c' : cron) : Prop :=
    cr_arena c' = cr_arena c /\ cr_entries c' = cr_entries c /\ cr_pending c' = cr_pending c /\ cr_ins c' = cr_ins c.
  Definition Popped (sc : scfg) (s s' : vsys) : Prop :=
    exists h, pt_min None (cr_pending (vs_cron s)) = Some h
              /\ vs_cron s' = fst (pop nxt (vs_cron s) (vs_now s))
              /\ (hd_due s = false -> hd_due s' = false -> (Phi sc s' < Phi sc s)%nat).
  Definition Good (sc : scfg) (s : vsys) (l : vlabel) (s' : vsys) : Prop :=
    vstep sc s l = Some s' /\ driver_label l = true /\ vs_now s' = vs_now s
    /\ ((same_core (vs_cron s) (vs_cron s') /\ (Phi sc s' < Phi sc s)%nat) \/ Popped sc s s').

  (* the timer facts RC (R False) hold of every accepted trace, whatever the driver did: that is all that is needed here *)
  Record Inv (sc : scfg) (s : vsys) : Prop := mkInv {
    i3 : VI3 (sc_clock_check sc = true) True s; i4 : VI4 nxt s; iR : R False s; iNT : NT s }.
  Lemma Inv_init sc : Inv sc vsys_init.
  Proof. constructor; [apply VI3_init | apply VI4_init | apply R_init | apply NT_init]. Qed.
  Lemma Inv_step sc s l s' : Inv sc s -> vstep sc s l = Some s' -> Inv sc s'.
  Proof.
    intros [I3 I4 IR INT] H. constructor;
      [eapply vi3_step; [intros _; exact I | exact I3 | exact H] | eapply vi4_step; eauto
       | eapply R_step; [exact I3 | exact I4 | exact IR | intros [] | exact H] | eapply NT_step; eauto].
  Qed.
  Lemma Inv_run sc q : forall s s', Inv sc s -> vrun nxt sc s q = Some s' -> Inv sc s'.
  Proof.
    induction q as [|l q IH]; intros s s' I H; cbn [vrun] in H; [inv H; exact I|].
    destruct (vstep sc s l) as [s1|] eqn:S; [|discriminate]. eapply IH; [|exact H]. eapply Inv_step; eauto.
  Qed.

  (* ---- the timer after the scheduler's own StopTimer / StartTimer and after Pop ---- *)
  Lemma rearmed_pending c now : Rearmed c now -> tm_pending (cr_timer c) = cr_started c && due_head c now.
  Proof.
    unfold Rearmed. intros ->. rewrite expected_timer_cases. unfold due_head, hsched.
    destruct (cr_started c); cbn; [|reflexivity].
    destruct (pt_min None (cr_pending c)) as [h|]; cbn; [|reflexivity]. destruct (_ <=? _); reflexivity.
  Qed.
  Lemma stop_pending c : Inv17 c -> tm_pending (cr_timer (stop_timer c)) = false.
  Proof. intros [Ht _]. unfold stop_timer. cbn. rewrite stop_drain_idle by exact Ht. reflexivity. Qed.
  Lemma start_pending c now : Inv17 c -> tm_pending (cr_timer (start_timer c now)) = due_head c now.
  Proof.
    intros I. destruct (start_rearmed c now I) as [_ X]. apply rearmed_pending in X. rewrite X. reflexivity.
  Qed.

  Ltac phi := unfold Phi, nres, tok, tokR, rank, lastn, effI, effS, fpend, hd_due; vf.
  (* steps that leave pc, flags and store alone *)
  Ltac phi_frame :=
    match goal with
    | |- (Phi ?sc ?a < Phi ?sc ?b)%nat =>
      let Et := fresh "Et" in
      assert (Et : tok sc a = tok sc b) by reflexivity; unfold Phi, nres; rewrite Et; vf
    end.
  Lemma same_core_refl c : same_core c c.
  Proof. repeat split. Qed.

  (* ================================================================================================ *)
  (* 3. The label chosen is accepted, and the measure decreases (or the store pops)                    *)
  (* ================================================================================================ *)
  Lemma drive_worker sc s l :
    (vs_running s <> [] \/ vs_accepted s <> []) -> next_driver_label s = Some l -> exists s', Good sc s l s'.
  Proof.
    intros W N. unfold next_driver_label in N. destruct (vs_running s) as [|id run] eqn:Rn.
    - destruct (vs_accepted s) as [|[id t] acc] eqn:Ac; [destruct W as [W|W]; contradiction W; reflexivity|].
      inv N. eexists. split.
      { unfold vsys_step. rewrite Ac. cbn [List.find fst]. rewrite String.eqb_refl, gtime_eqb_refl, task_eqb_refl.
        cbn [andb remove_first fst]. rewrite String.eqb_refl. reflexivity. }
      split; [reflexivity | split; [reflexivity | left; split; [apply same_core_refl|]]].
      phi_frame. rewrite Rn, Ac. cbn [List.length]. lia.
    - inv N. eexists. split.
      { unfold vsys_step. rewrite Rn. cbn [str_mem existsb str_del]. rewrite String.eqb_refl. cbn [orb]. reflexivity. }
      split; [reflexivity | split; [reflexivity | left; split; [apply same_core_refl|]]].
      phi_frame. rewrite Rn, app_length. cbn [List.length]. lia.
  Qed.

  Lemma due_head_pending c c' now : cr_pending c' = cr_pending c -> due_head c' now = due_head c now.
  Proof. unfold due_head. intros ->. reflexivity. Qed.

  Ltac bools s :=
    destruct (vs_err s) eqn:Ee; destruct (tm_pending (cr_timer (vs_cron s))) eqn:Ep;
    destruct (due_head (vs_cron s) (vs_now s)) eqn:Ed; destruct (vs_last s) eqn:El; cbn [b2n orb andb]; try lia.
  Ltac good_frame := split; [reflexivity | split; [reflexivity | left; split; [repeat split|]]].

  Lemma head_accept_obs s h : pt_min None (cr_pending (vs_cron s)) = Some h ->
    exists ids', head_accept s (head_obs s h) = Some (h, ids').
  Proof.
    intros Hm. unfold head_accept, head_obs. rewrite Hm.
    replace (blank_id (with_id (pt_task h) _)) with (blank_id (pt_task h)) by reflexivity.
    rewrite task_eqb_refl. destruct (id_of (vs_ids s) (pt_ins h)) as [i|] eqn:G.
    - cbn [t_id with_id]. rewrite String.eqb_refl. eauto.
    - cbn [t_id with_id]. destruct (existsb _ (vs_ids s)) eqn:X; [|eauto]. exfalso.
      apply existsb_exists in X. destruct X as ([a b] & Hin & E). cbn [snd] in E. apply String.eqb_eq in E.
      apply (fresh_id_notin (map snd (vs_ids s))). rewrite <- E. apply in_map_iff. exists (a, b). split; [reflexivity | exact Hin].
  Qed.

  (* the model's own MarkAsDispatched never reports the transient Pop failure *)
  Lemma v_mark_disp_not_other s id b :
    cret_eqb (RRes (snd (v_mark_disp nxt s id))) (RRes (RErr EOther)) && b = false.
  Proof.
    unfold v_mark_disp.
    repeat match goal with |- context [match ?x with _ => _ end] => destruct x end; reflexivity.
  Qed.

  Lemma drive_pc sc s l :
    Inv sc s -> vs_running s = [] -> vs_accepted s = [] -> next_driver_label s = Some l -> exists s', Good sc s l s'.
  Proof.
    intros [I3 I4 IR INT] Rn Ac N. unfold next_driver_label in N. rewrite Rn, Ac in N.
    pose proof (rc17 _ _ (r_rc False s IR)) as I17. pose proof (w_inv nxt s I4) as I15.
    destruct (vs_pc s) eqn:P.
    - (* PIdle *)
      destruct (vs_retry s) as [[| |ok0 t0|t0|i0|i0 o0 u0|]|] eqn:Rt; cbv beta iota in N; inv N;
        try (eexists; split; [unfold vsys_step; rewrite P; reflexivity|]; good_frame; phi; rewrite P, Rt; lia).
      (* a DispatchErr is answered by Retry *)
      eexists. split. { unfold vsys_step. rewrite P, Rt, sstate_eqb_refl. reflexivity. }
      good_frame. phi. rewrite P, Rt. lia.
    - (* PStep0 *)
      destruct (vs_err s) eqn:E; inv N.
      + eexists. split. { unfold vsys_step. rewrite P, E. cbn. reflexivity. }
        good_frame. phi. rewrite P, E. cbn [kont_rect]. rewrite (due_head_pending (vs_cron s) (stop_timer (vs_cron s))) by reflexivity. lia.
      + eexists. split. { unfold vsys_step. rewrite P, E. cbn. reflexivity. }
        good_frame. phi. rewrite P, E. lia.
    - (* PRestart1 *)
      inv N. eexists. split. { unfold vsys_step. rewrite P. cbn. reflexivity. }
      good_frame. phi. rewrite P. rewrite (due_head_pending (vs_cron s) (stop_timer (vs_cron s))) by reflexivity.
      destruct k; lia.
    - (* PRestart2 *)
      inv N. eexists. split. { unfold vsys_step. rewrite P. cbn. reflexivity. }
      good_frame. phi. rewrite P. rewrite (start_pending _ _ I17).
      rewrite (due_head_pending (vs_cron s) (start_timer (vs_cron s) (vs_now s))) by reflexivity.
      destruct k; bools s.
    - (* PRestart3 *)
      inv N. eexists. split. { unfold vsys_step. rewrite P. cbn. reflexivity. }
      destruct k; good_frame; phi; rewrite P; bools s.
    - (* PStepMain *)
      destruct (vs_last s) as [t|] eqn:L; inv N.
      + (* MarkAsDispatched(lastTask) *)
        destruct (v_mark_disp nxt s (t_id t)) as [s1 x] eqn:M. cbn [snd].
        destruct (v_mark_disp_frame nxt s _ s1 x M) as (M1 & M2 & M3 & M4 & M5 & M6 & M7 & M8 & M9 & M10 & Mrec & Merr).
        pose proof (v_mark_disp_not_other s (t_id t) (head_bound s (t_id t))) as NF. rewrite M in NF. cbn [snd] in NF.
        eexists. split.
        { unfold vsys_step. rewrite P, L, String.eqb_refl, NF, M, cret_eqb_refl. reflexivity. }
        split; [reflexivity|]. split; [destruct (is_err_res x); vf; exact M2|].
        unfold v_mark_disp in M.
        match type of M with (if ?b then _ else _) = _ => destruct b eqn:B end.
        * (* the store pops *)
          right. destruct (pt_min None (cr_pending (vs_cron s))) as [h|] eqn:Hm; [|discriminate B].
          destruct (pop_rearmed nxt (vs_cron s) (vs_now s) h I17 I15 Hm) as [_ PR]. apply rearmed_pending in PR.
          destruct (pop nxt (vs_cron s) (vs_now s)) as [c' o] eqn:Pp. cbn [fst] in PR. inv M. cbn [is_err_res].
          exists h. split; [exact Hm|]. split; [vf; rewrite Pp; reflexivity|]. intros D D'.
          unfold hd_due in D, D'. vf. phi. rewrite P, L, PR, D'. rewrite andb_false_r. cbn [b2n]. clear NF B Merr Mrec. lia.
        * left.
          assert (Ec : vs_cron s1 = vs_cron s) by (destruct (rec_get (vs_record s) (t_id t)); inv M; reflexivity).
          split; [destruct (is_err_res x); vf; rewrite Ec; apply same_core_refl|].
          destruct (is_err_res x) eqn:Ex; phi; rewrite P, L, ?Ec, ?M2, ?M6, ?M7, ?M8, ?(Merr eq_refl); cbv beta iota;
            clear NF Ex Merr B M Mrec; bools s.
      + eexists. split. { unfold vsys_step. rewrite P, L. cbn. reflexivity. }
        good_frame. phi. rewrite P, L. bools s.
    - (* PSelect *)
      destruct (vs_results s) as [|[id o] rest] eqn:Rs.
      + destruct (tm_pending (cr_timer (vs_cron s))) eqn:Ep; inv N.
        eexists. split. { unfold vsys_step. rewrite P, Ep. reflexivity. }
        good_frame. phi. rewrite P, Ep. cbn [with_timer cr_timer tm_consume tm_pending orb b2n]. lia.
      + assert (EI : (b2n (effI s) <= b2n (effS s))%nat) by (unfold effI, effS, fpend, hd_due; bools s).
        destruct (outcome_eqb o OCanceled) eqn:Eo.
        * destruct o; try discriminate Eo. inv N.
          eexists. split. { unfold vsys_step. rewrite P, Rs, String.eqb_refl. cbn. reflexivity. }
          good_frame. unfold Phi, nres, tok, rank, lastn. vf. rewrite P, Rs.
          replace (effI _) with (effI s) by reflexivity. cbn [List.length]. lia.
        * assert (N' : l = VCall (CMarkDone id (outcome_err o)) (RRes ROk)) by (destruct o; inv N; try reflexivity; discriminate Eo).
          subst l. eexists. split.
          { unfold vsys_step. rewrite P, Rs, String.eqb_refl, Eo. cbn [negb andb].
            replace (match outcome_err o with Some a => _ | None => _ end) with true
              by (destruct (outcome_err o); [rewrite String.eqb_refl|]; reflexivity).
            cbn. reflexivity. }
          good_frame. unfold Phi, nres, tok, rank, lastn. vf. rewrite P, Rs.
          replace (effI _) with (effI s) by reflexivity. cbn [List.length]. lia.
    - (* PFire1 *)
      destruct (pt_min None (cr_pending (vs_cron s))) as [h|] eqn:Hm; inv N.
      + destruct (head_accept_obs s h Hm) as [ids' HA].
        eexists. split. { unfold vsys_step. rewrite P. cbv beta iota. rewrite HA. reflexivity. }
        good_frame. phi. rewrite P. unfold announce, next_scheduled, due_head. vf. rewrite Hm. cbn [omap].
        replace (t_sched (head_obs s h)) with (t_sched (pt_task h)) by reflexivity.
        unfold t_equal, t_after. rewrite Z.eqb_refl. cbn [andb].
        destruct (sc_clock_check sc); cbn [negb orb]; [|lia].
        destruct (Z.ltb_spec (inst (vs_now s)) (inst (t_sched (pt_task h)))) as [Q|Q]; cbn [negb]; [|lia].
        replace (inst (t_sched (pt_task h)) <=? inst (vs_now s)) with false by (symmetry; apply Z.leb_gt; exact Q).
        destruct (sc_err_on_mismatch sc); cbn [b2n]; lia.
      + eexists. split. { unfold vsys_step. rewrite P. cbv beta iota. rewrite Hm. reflexivity. }
        good_frame. phi. rewrite P. unfold due_head. rewrite Hm. cbn [b2n]. lia.
    - (* PFire2 *)
      inv N. destruct (announce sc s next) eqn:A.
      + eexists. split.
        { unfold vsys_step. rewrite P. cbv beta iota zeta. rewrite cret_eqb_refl. unfold announce in A. rewrite A. reflexivity. }
        good_frame. phi. rewrite P, A. lia.
      + eexists. split.
        { unfold vsys_step. rewrite P. cbv beta iota zeta. rewrite cret_eqb_refl. unfold announce in A. rewrite A. reflexivity. }
        good_frame. phi. rewrite P, A. lia.
    - (* PDisp1: Retry(DispatchErr) found the task again and dispatches it *)
      inv N. destruct (v_mark_disp nxt s (t_id t)) as [s1 x] eqn:M. cbn [snd].
      destruct (v_mark_disp_frame nxt s _ s1 x M) as (M1 & M2 & M3 & M4 & M5 & M6 & M7 & M8 & M9 & M10 & Mrec & Merr).
      pose proof (v_mark_disp_not_other s (t_id t) (head_bound s (t_id t))) as NF. rewrite M in NF. cbn [snd] in NF.
      eexists. split.
      { unfold vsys_step. rewrite P, String.eqb_refl, NF, M, cret_eqb_refl. reflexivity. }
      split; [reflexivity|]. split; [destruct (is_err_res x); vf; exact M2|].
      unfold v_mark_disp in M.
      match type of M with (if ?b then _ else _) = _ => destruct b eqn:B end.
      + (* the store pops *)
        right. destruct (pt_min None (cr_pending (vs_cron s))) as [h|] eqn:Hm; [|discriminate B].
        destruct (pop_rearmed nxt (vs_cron s) (vs_now s) h I17 I15 Hm) as [_ PR]. apply rearmed_pending in PR.
        destruct (pop nxt (vs_cron s) (vs_now s)) as [c' o] eqn:Pp. cbn [fst] in PR. inv M. cbn [is_err_res].
        exists h. split; [exact Hm|]. split; [vf; rewrite Pp; reflexivity|]. intros D D'.
        unfold hd_due in D, D'. vf. phi. rewrite P, PR, D'. rewrite andb_false_r. clear NF B Merr Mrec.
        destruct (vs_err s); cbn [b2n]; lia.
      + left.
        assert (Ec : vs_cron s1 = vs_cron s) by (destruct (rec_get (vs_record s) (t_id t)); inv M; reflexivity).
        split; [destruct (is_err_res x); vf; rewrite Ec; apply same_core_refl|].
        destruct (is_err_res x) eqn:Ex; phi; rewrite P, ?Ec, ?M2, ?M3, ?M4, ?M6, ?M7, ?M8, ?(Merr eq_refl); cbv beta iota;
          clear NF Ex Merr B M Mrec; lia.
    - (* PDisp2 *)
      inv N. unfold get_by_id_ret. destruct (rec_get (vs_record s) (t_id t)) as [t'|] eqn:G.
      + eexists. split. { unfold vsys_step. rewrite P, String.eqb_refl, G, cret_eqb_refl. reflexivity. }
        good_frame. unfold Phi, nres, tok, rank, lastn. vf. rewrite P, Ac, app_length.
        replace (effI _) with (effI s) by reflexivity. cbn [List.length app]. lia.
      + eexists. split. { unfold vsys_step. rewrite P, String.eqb_refl, G, cret_eqb_refl. reflexivity. }
        good_frame. unfold Phi, nres, tok, tokR, rank, lastn. vf. rewrite P, G.
        replace (effI _) with (effI s) by reflexivity. lia.
    - (* PRetryDE: GetById again *)
      inv N. unfold get_by_id_ret. destruct (rec_get (vs_record s) (t_id t)) as [t'|] eqn:G.
      + destruct (t_state t') eqn:Es; [destruct (t_after (t_sched t') (vs_now s)) eqn:Af|..];
          (eexists; split; [unfold vsys_step; rewrite P, String.eqb_refl, G, cret_eqb_refl, Es, ?Af; reflexivity|]);
          good_frame; unfold Phi, nres, tok, tokR, rank, lastn; vf; rewrite P, G, Es, ?Af;
          try (replace (effI _) with (effI s) by reflexivity); try lia.
        unfold effI, hd_due. vf. lia.
      + eexists. split. { unfold vsys_step. rewrite P, String.eqb_refl, G, cret_eqb_refl. reflexivity. }
        good_frame. unfold Phi, nres, tok, tokR, rank, lastn. vf. rewrite P, G.
        replace (effI _) with (effI s) by reflexivity. lia.
    - (* PRetryTD: dead *) destruct INT as [X _]. rewrite P in X. contradiction X.
    - (* PEnd *)
      inv N. eexists. split. { unfold vsys_step. rewrite P, sstate_eqb_refl, Bool.eqb_reflx. cbn [andb]. reflexivity. }
      good_frame. unfold Phi, nres, tok, tokR, rank, lastn. vf. rewrite P.
      destruct st as [| |ok0 t0|t0|i0|i0 o0 u0|]; try (destruct ok0); try (destruct u0); cbn [negb];
        try (replace (effI _) with (effI s) by reflexivity); try (replace (hd_due _) with (hd_due s) by reflexivity); try lia.
  Qed.

  Lemma drive_step sc s l : Inv sc s -> next_driver_label s = Some l -> exists s', Good sc s l s'.
  Proof.
    intros I N. destruct (vs_running s) as [|i r] eqn:Rn; [|apply drive_worker; [left; rewrite Rn; discriminate | exact N]].
    destruct (vs_accepted s) as [|a r] eqn:Ac; [|apply drive_worker; [right; rewrite Ac; discriminate | exact N]].
    apply drive_pc; assumption.
  Qed.

  (* the label chosen is that of a disciplined driver (a DispatchErr is answered by Retry) and of a fault-free store
     (never the transient Pop failure) *)
  Lemma next_ok s l : next_driver_label s = Some l ->
    match l with VStepBegin => negb (owed s) | _ => true end = true /\ failed_mark l = false.
  Proof.
    unfold next_driver_label. destruct (vs_running s); [|intros E; inv E; auto].
    destruct (vs_accepted s) as [|[i t] a]; [|intros E; inv E; auto].
    destruct (vs_pc s); try (intros E; inv E; auto; fail).
    - unfold owed. destruct (vs_retry s) as [[]|]; intros E; inv E; auto.
    - destruct (vs_err s); intros E; inv E; auto.
    - destruct (vs_last s); intros E; inv E; auto. split; [reflexivity|]. cbn [failed_mark].
      pose proof (v_mark_disp_not_other s (t_id t) true) as X. rewrite andb_true_r in X.
      destruct (snd (v_mark_disp nxt s (t_id t))) as [| | |[]]; try reflexivity. discriminate X.
    - destruct (vs_results s) as [|[i o] r]; [destruct (tm_pending _); intros E; inv E; auto|].
      destruct o; intros E; inv E; auto.
    - destruct (pt_min None _); intros E; inv E; auto.
    - intros E. inv E. split; [reflexivity|]. cbn [failed_mark].
      pose proof (v_mark_disp_not_other s (t_id t) true) as X. rewrite andb_true_r in X.
      destruct (snd (v_mark_disp nxt s (t_id t))) as [| | |[]]; try reflexivity. discriminate X.
  Qed.
  Definition qok (s : vsys) (q : list vlabel) : Prop :=
    vdispatch_err_retried (owed s) q = true /\ has_failed_mark q = false.
  Lemma qok_nil s : qok s [].
  Proof. split; reflexivity. Qed.
  Lemma qok_cons sc s l s1 q : next_driver_label s = Some l -> vstep sc s l = Some s1 -> qok s1 q -> qok s (l :: q).
  Proof.
    intros N H [Q1 Q2]. destruct (next_ok s l N) as [X1 X2]. split.
    - cbn [vdispatch_err_retried]. rewrite X1, <- (owed_step nxt sc s l s1 H). exact Q1.
    - cbn [has_failed_mark]. rewrite X2. exact Q2.
  Qed.
  Lemma has_failed_mark_app a b : has_failed_mark (a ++ b) = has_failed_mark a || has_failed_mark b.
  Proof. induction a as [|l a IH]; cbn [app has_failed_mark]; [reflexivity|]. rewrite IH, orb_assoc. reflexivity. Qed.
  (* appended to an accepted trace whose driver was in order, it gives a trace whose driver is in order *)
  Lemma driver_ok_app sc tr s q :
    vrun nxt sc vsys_init tr = Some s -> qok s q -> vdriver_ok tr = true -> vdriver_ok (tr ++ q) = true.
  Proof.
    intros H [Q1 Q2] Ok. unfold vdriver_ok, vtrace_disciplined in *.
    rewrite vdispatch_err_retried_app, has_failed_mark_app, Q2, orb_false_r.
    pose proof (owed_run nxt sc tr _ _ H) as E. change (owed vsys_init) with false in E.
    rewrite <- E, Q1, andb_true_r. exact Ok.
  Qed.

  (* ================================================================================================ *)
  (* 4. No deadlock; one round                                                                         *)
  (* ================================================================================================ *)
  Lemma same_core_trans c1 c2 c3 : same_core c1 c2 -> same_core c2 c3 -> same_core c1 c3.
  Proof. unfold same_core. intros (A1 & A2 & A3 & A4) (B1 & B2 & B3 & B4). repeat split; congruence. Qed.
  Lemma pend_ext_refl c : pend_ext c c.
  Proof. apply pend_ext_same; reflexivity. Qed.
  Lemma pend_ext_trans c1 c2 c3 : pend_ext c1 c2 -> pend_ext c2 c3 -> pend_ext c1 c3.
  Proof.
    intros [A1 A2] [B1 B2]. split; [lia|]. intros p Hp. destruct (B2 p Hp) as [X|X]; [|right; lia].
    destruct (A2 p X) as [Y|Y]; [left; exact Y | right; lia].
  Qed.
  Lemma same_core_pend_ext c c' : same_core c c' -> pend_ext c c'.
  Proof. intros (_ & _ & A3 & A4). apply pend_ext_same; assumption. Qed.
  Lemma pop_ins c now h : Inv15 nxt c -> pt_min None (cr_pending c) = Some h ->
    cr_ins (fst (pop nxt c now)) = S (cr_ins c).
  Proof.
    intros I Hm. destruct (pop_shape15 nxt c now h I Hm) as (eid & e & l1 & l2 & _ & _ & _ & _ & ->). reflexivity.
  Qed.

  (* in every state satisfying the invariants (every reachable state) that is not at rest, the label computed by
     next_driver_label is a driver / worker label and the monitor accepts it *)
  Theorem no_deadlock_inv sc s : Inv sc s -> at_rest s = false ->
    exists l s', next_driver_label s = Some l /\ driver_label l = true /\ vstep sc s l = Some s'.
  Proof.
    intros I NR. destruct (next_driver_label s) as [l|] eqn:N.
    - destruct (drive_step sc s l I N) as (s' & H & D & _). eauto.
    - exfalso. destruct (next_none s N) as [X|(id & o & X)]; [congruence|].
      destruct (iNT sc s I) as [Y _]. rewrite X in Y. exact Y.
  Qed.

  (* one round: the driver completes the current Step / Retry and goes on until either the system is at rest
     (nothing was popped) or the head occurrence of the store has been popped (dispatched) *)
  Definition Round (sc : scfg) (s : vsys) : Prop :=
    exists q s', driver_only q = true /\ vrun nxt sc s q = Some s' /\ vs_now s' = vs_now s
      /\ ((at_rest s' = true /\ same_core (vs_cron s) (vs_cron s'))
          \/ (exists h, pt_min None (cr_pending (vs_cron s)) = Some h
                        /\ (forall p, In p (cr_pending (vs_cron s')) -> pt_ins p <> pt_ins h)
                        /\ cr_ins (vs_cron s') = S (cr_ins (vs_cron s))
                        /\ pend_ext (vs_cron s) (vs_cron s'))).

  Theorem one_round_inv sc : forall m s, Phi sc s = m -> Inv sc s -> Round sc s.
  Proof.
    induction m as [m IH] using lt_wf_ind. intros s Em I.
    destruct (next_driver_label s) as [l|] eqn:N.
    - destruct (drive_step sc s l I N) as (s1 & H & D & En & [[C L]|(h & Hm & Ec & _)]).
      + assert (I1 : Inv sc s1) by (eapply Inv_step; eauto).
        destruct (IH (Phi sc s1) ltac:(lia) s1 eq_refl I1) as (q & s' & Dq & Hq & Enq & Z).
        exists (l :: q), s'. split; [cbn; rewrite D; exact Dq|]. split; [cbn [vrun]; rewrite H; exact Hq|].
        split; [congruence|]. destruct Z as [[Z1 Z2]|(h & Hm & Z1 & Z2 & Z3)].
        * left. split; [exact Z1 | eapply same_core_trans; eauto].
        * right. pose proof (same_core_pend_ext _ _ C) as CE. destruct C as (C1 & C2 & C3 & C4).
          exists h. rewrite <- C3, <- C4. split; [exact Hm|]. split; [exact Z1|]. split; [exact Z2|].
          eapply pend_ext_trans; [exact CE | exact Z3].
      + exists [l], s1. split; [cbn; rewrite D; reflexivity|]. split; [cbn [vrun]; rewrite H; reflexivity|].
        split; [exact En|]. right. exists h. split; [exact Hm|].
        pose proof (w_inv nxt s (i4 sc s I)) as I15.
        destruct (pop_gone nxt (vs_cron s) (vs_now s) h I15 Hm) as (_ & X2 & X3 & _). cbn zeta in *. rewrite Ec.
        split; [exact X3|]. split; [eapply pop_ins; eauto | exact X2].
    - destruct (next_none s N) as [X|(id & o & X)].
      + exists [], s. split; [reflexivity|]. split; [reflexivity|]. split; [reflexivity|]. left. split; [exact X | apply same_core_refl].
      + exfalso. destruct (iNT sc s I) as [Y _]. rewrite X in Y. exact Y.
  Qed.

  (* ================================================================================================ *)
  (* 5. The catch-up potential of the store                                                            *)
  (* ================================================================================================ *)
  Definition is_now (m : mutator) : bool := match m with MNow => true | MRand _ => false end.
  Fixpoint nrand (l : list mutator) : nat :=
    match l with [] => O | MRand _ :: r => S (nrand r) | MNow :: r => nrand r end.
  (* without ScheduleAtNow the mutators shift the occurrence by a constant *)
  Definition shift (l : list mutator) : Z :=
    Z.of_nat (nrand l) * match rand_of l with Some r => r_min r | None => 0 end.

  Lemma apply_mutators_sched l now off : forall p b, existsb is_now l = false -> u_sched p = Some b ->
    exists u, u_sched (apply_mutators l now off p) = Some (T (inst b + Z.of_nat (nrand l) * off) u).
  Proof.
    induction l as [|m l IH]; intros p b Hn Hs; cbn [apply_mutators nrand].
    - exists (utc b). rewrite Hs. destruct b as [i u]. cbn. f_equal. f_equal. lia.
    - cbn [existsb] in Hn. apply orb_false_iff in Hn. destruct Hn as [Hm Hl]. destruct m as [|r]; [discriminate Hm|].
      destruct (IH (mutate (MRand r) now off p) (t_add b off) Hl) as [u E].
      { cbn [mutate u_sched]. rewrite Hs. reflexivity. }
      exists u. rewrite E. f_equal. f_equal. cbn [t_add inst]. rewrite Nat2Z.inj_succ. ring.
  Qed.

  Lemma wrap_sched k muts ins now eid e : existsb is_now muts = false ->
    inst (t_sched (pt_task (wrap k muts ins now (entry_param nxt eid e)))) =
    (inst (nxt eid (e_prev e)) + shift muts) - (inst (nxt eid (e_prev e)) + shift muts) mod ms.
  Proof.
    intros Hn. unfold wrap. cbn [pt_task].
    set (off := match rand_of muts with Some r => r_min r | None => 0 end).
    destruct (apply_mutators_sched muts now off (entry_param nxt eid e) (nxt eid (e_prev e)) Hn eq_refl) as [u E].
    unfold to_task, task_update. cbn [t_sched norm_task]. rewrite E. cbn [assign norm inst]. reflexivity.
  Qed.

  Section Progress.
    (* the schedule advances by at least d > 0 at every occurrence *)
    Variable d : Z.
    Hypothesis Hd : 0 < d.
    Hypothesis Hnxt : forall e t, inst t + d <= inst (nxt e t).

    Definition Xof (now : gtime) (p : ptask) : Z := inst now + ms - shift (pt_muts p) - inst (pt_occ p).
    (* how many more occurrences of p's entry can come due at clock reading [now] (p included) *)
    Definition gof (now : gtime) (p : ptask) : nat := if Xof now p <? 0 then O else S (Z.to_nat (Xof now p / d)).
    Definition dueb (now : gtime) (p : ptask) : nat := if inst (t_sched (pt_task p)) <=? inst now then 1%nat else O.
    Definition wt (now : gtime) (p : ptask) : nat := (2 * gof now p + dueb now p)%nat.
    Definition P4c (c : cron) (now : gtime) : nat := list_sum (map (wt now) (cr_pending c)).
    Definition NoNowC (c : cron) : Prop := forall p, In p (cr_pending c) -> existsb is_now (pt_muts p) = false.

    Lemma wt_next now h k ins eid e : existsb is_now (pt_muts h) = false -> pt_occ h = e_prev e ->
      let nx := wrap k (pt_muts h) ins now (entry_param nxt eid e) in
      (wt now nx < wt now h)%nat \/ (wt now nx = wt now h /\ dueb now h = O /\ dueb now nx = O).
    Proof.
      intros Hn Ho nx.
      assert (EX : Xof now nx + d <= Xof now h).
      { unfold Xof. replace (pt_muts nx) with (pt_muts h) by reflexivity.
        replace (pt_occ nx) with (nxt eid (e_prev e)) by reflexivity. rewrite Ho. pose proof (Hnxt eid (e_prev e)). lia. }
      assert (F3 : dueb now nx = 1%nat -> 0 <= Xof now nx).
      { unfold dueb. destruct (Z.leb_spec (inst (t_sched (pt_task nx))) (inst now)) as [Q|Q]; [|discriminate]. intros _.
        unfold nx in Q. rewrite wrap_sched in Q by exact Hn.
        unfold Xof. replace (pt_muts nx) with (pt_muts h) by reflexivity.
        replace (pt_occ nx) with (nxt eid (e_prev e)) by reflexivity.
        pose proof (Z.mod_pos_bound (inst (nxt eid (e_prev e)) + shift (pt_muts h)) ms ltac:(unfold ms; lia)) as B.
        set (y := inst (nxt eid (e_prev e)) + shift (pt_muts h)) in *. set (r := y mod ms) in *. clearbody r. lia. }
      assert (F1 : 0 <= Xof now nx -> (gof now nx + 1 <= gof now h)%nat).
      { intros Q. unfold gof.
        destruct (Z.ltb_spec (Xof now nx) 0) as [Q1|Q1]; [lia|]. destruct (Z.ltb_spec (Xof now h) 0) as [Q2|Q2]; [lia|].
        assert (D1 : Xof now nx / d + 1 <= Xof now h / d).
        { rewrite <- (Z.div_add (Xof now nx) 1 d) by lia. apply Z.div_le_mono; lia. }
        pose proof (Z.div_pos (Xof now nx) d Q1 Hd) as D2.
        set (qh := Xof now h / d) in *. set (qn := Xof now nx / d) in *. clearbody qh qn. lia. }
      assert (F2 : Xof now nx < 0 -> gof now nx = O).
      { intros Q. unfold gof. destruct (Z.ltb_spec (Xof now nx) 0); [reflexivity | lia]. }
      assert (B1 : (dueb now nx <= 1)%nat) by (unfold dueb; destruct (_ <=? _); lia).
      assert (B2 : (dueb now h <= 1)%nat) by (unfold dueb; destruct (_ <=? _); lia).
      unfold wt. destruct (Z.lt_ge_cases (Xof now nx) 0) as [Q|Q].
      - specialize (F2 Q). destruct (dueb now nx) as [|[|]] eqn:E; [|lia|lia].
        destruct (dueb now h) as [|[|]] eqn:E'; [|lia|lia]. destruct (gof now h); [right; lia | left; lia].
      - specialize (F1 Q). left. lia.
    Qed.

    Lemma list_sum_mid (f : ptask -> nat) l1 h l2 :
      list_sum (map f (l1 ++ h :: l2)) = (f h + list_sum (map f (l1 ++ l2)))%nat.
    Proof. rewrite !map_app, !list_sum_app. cbn [map]. unfold list_sum at 2. cbn [fold_right]. fold (list_sum (map f l2)). lia. Qed.

    Lemma pop_measure c now h : Inv15 nxt c -> NoNowC c -> pt_min None (cr_pending c) = Some h ->
      NoNowC (fst (pop nxt c now))
      /\ ((P4c (fst (pop nxt c now)) now < P4c c now)%nat
          \/ (P4c (fst (pop nxt c now)) now = P4c c now /\ due_head c now = false /\ due_head (fst (pop nxt c now)) now = false)).
    Proof.
      intros I NN Hm. destruct (pop_shape15 nxt c now h I Hm) as (eid & e & l1 & l2 & El & Hent & Ha & Hocc & ->).
      cbn [fst]. pose proof (proj1 (pop_is_min _ _ Hm)) as Hin. pose proof (NN h Hin) as Hn.
      set (nx := wrap (pt_key h) (pt_muts h) (S (cr_ins c)) now (entry_param nxt eid e)).
      assert (Ep : cr_pending (with_timer (pop_core nxt c now h eid e (l1 ++ l2))
                                          (reset_timer (pop_core nxt c now h eid e (l1 ++ l2)) now)) = (l1 ++ l2) ++ [nx])
        by reflexivity.
      assert (Sub : forall p, In p (l1 ++ l2) -> In p (cr_pending c)).
      { intros p Hp. rewrite El. apply in_app_or in Hp. apply in_or_app. cbn. tauto. }
      split.
      - intros p Hp. rewrite Ep in Hp. apply in_app_or in Hp. destruct Hp as [Hp|[<-|[]]]; [apply NN; apply Sub; exact Hp | exact Hn].
      - unfold P4c. rewrite Ep, El. rewrite (list_sum_mid (wt now) l1 h l2), (list_sum_mid (wt now) (l1 ++ l2) nx []), app_nil_r.
        pose proof (wt_next now h (pt_key h) (S (cr_ins c)) eid e Hn Hocc) as W. cbn zeta in W. fold nx in W.
        destruct W as [L|(E1 & E2 & E3)]; [left; lia|].
        right. split; [lia|]. split.
        + unfold due_head. rewrite Hm. unfold dueb in E2. destruct (_ <=? _); [discriminate E2 | reflexivity].
        + unfold due_head. rewrite Ep. destruct (pt_min None ((l1 ++ l2) ++ [nx])) as [h'|] eqn:Hm'; [|reflexivity].
          apply pop_is_min in Hm'. destruct Hm' as [Hin' _]. apply in_app_or in Hin'. destruct Hin' as [Hp|[<-|[]]].
          * pose proof (proj2 (pop_is_min _ _ Hm) h' (Sub h' Hp)) as Lt. apply pt_lt_false_sched in Lt. unfold hsched in Lt.
            unfold dueb in E2. destruct (Z.leb_spec (inst (t_sched (pt_task h))) (inst now)); [discriminate E2|].
            apply Z.leb_gt. lia.
          * unfold dueb in E3. destruct (_ <=? _); [discriminate E3 | reflexivity].
    Qed.

    Definition P4 (s : vsys) : nat := P4c (vs_cron s) (vs_now s).
    Definition NoNow (s : vsys) : Prop := NoNowC (vs_cron s).
    Definition Quiesced (sc : scfg) (s : vsys) : Prop :=
      exists q s', driver_only q = true /\ vrun nxt sc s q = Some s' /\ at_rest s' = true
                   /\ vs_now s' = vs_now s /\ pend_ext (vs_cron s) (vs_cron s') /\ qok s q.

    Theorem quiesce_inv sc : forall n m s, P4 s = n -> Phi sc s = m -> Inv sc s -> NoNow s -> Quiesced sc s.
    Proof.
      induction n as [n IHn] using lt_wf_ind. induction m as [m IHm] using lt_wf_ind. intros s En Em I NN.
      destruct (next_driver_label s) as [l|] eqn:N.
      - destruct (drive_step sc s l I N) as (s1 & H & D & Enow & [[C L]|(h & Hm & Ec & PL)]).
        + (* the store is untouched *)
          assert (I1 : Inv sc s1) by (eapply Inv_step; eauto).
          pose proof (same_core_pend_ext _ _ C) as CE. destruct C as (C1 & C2 & C3 & C4).
          assert (E4 : P4 s1 = n) by (unfold P4, P4c; rewrite C3, Enow; exact En).
          assert (NN1 : NoNow s1) by (unfold NoNow, NoNowC; rewrite C3; exact NN).
          destruct (IHm (Phi sc s1) ltac:(lia) s1 E4 eq_refl I1 NN1) as (q & s' & Dq & Hq & Rq & Nq & Pq & Oq).
          exists (l :: q), s'. split; [cbn; rewrite D; exact Dq|]. split; [cbn [vrun]; rewrite H; exact Hq|].
          split; [exact Rq|]. split; [congruence|]. split; [eapply pend_ext_trans; eauto | eapply qok_cons; eauto].
        + (* the store pops *)
          assert (I1 : Inv sc s1) by (eapply Inv_step; eauto).
          pose proof (w_inv nxt s (i4 sc s I)) as I15.
          destruct (pop_measure (vs_cron s) (vs_now s) h I15 NN Hm) as [NN1 PM]. rewrite <- Ec in NN1, PM.
          destruct (pop_gone nxt (vs_cron s) (vs_now s) h I15 Hm) as (_ & X2 & _ & _). cbn zeta in X2. rewrite <- Ec in X2.
          assert (Q1 : Quiesced sc s1).
          { destruct PM as [Lt|(Eq & D0 & D1)].
            - assert (Lt' : (P4 s1 < n)%nat) by (unfold P4; rewrite Enow, <- En; exact Lt).
              exact (IHn (P4 s1) Lt' (Phi sc s1) s1 eq_refl eq_refl I1 NN1).
            - assert (Lt' : (Phi sc s1 < m)%nat) by (rewrite <- Em; apply PL; [exact D0 | unfold hd_due; rewrite Enow; exact D1]).
              assert (E4 : P4 s1 = n) by (unfold P4; rewrite Enow, <- En; exact Eq).
              exact (IHm (Phi sc s1) Lt' s1 E4 eq_refl I1 NN1). }
          destruct Q1 as (q & s' & Dq & Hq & Rq & Nq & Pq & Oq).
          exists (l :: q), s'. split; [cbn; rewrite D; exact Dq|]. split; [cbn [vrun]; rewrite H; exact Hq|].
          split; [exact Rq|]. split; [congruence|]. split; [eapply pend_ext_trans; eauto | eapply qok_cons; eauto].
      - destruct (next_none s N) as [X|(id & o & X)].
        + exists [], s. split; [reflexivity|]. split; [reflexivity|]. split; [exact X|]. split; [reflexivity|].
          split; [apply pend_ext_refl | apply qok_nil].
        + exfalso. destruct (iNT sc s I) as [Y _]. rewrite X in Y. exact Y.
    Qed.
  End Progress.
End VLive.

(* ================================================================================================ *)
(* 6. The theorems on accepted traces                                                                *)
(* ================================================================================================ *)
Lemma at_rest_spec s : at_rest s = true <->
  vs_pc s = PSelect /\ tm_pending (cr_timer (vs_cron s)) = false /\ vs_results s = [] /\ vs_accepted s = [] /\ vs_running s = [].
Proof.
  unfold at_rest. split.
  - intros H. repeat (apply andb_true_iff in H; destruct H as [H ?]).
    destruct (vs_pc s); try discriminate. destruct (tm_pending _); try discriminate.
    destruct (vs_results s); try discriminate. destruct (vs_accepted s); try discriminate.
    destruct (vs_running s); try discriminate. repeat split.
  - intros (-> & -> & -> & -> & ->). reflexivity.
Qed.

Section Traces.
  Variable nxt : nat -> gtime -> gtime.
  Variable sc : scfg.

  Lemma Inv_reachable tr s : vrun nxt sc vsys_init tr = Some s -> Inv nxt sc s.
  Proof. apply Inv_run. apply Inv_init. Qed.

  (* the monitor never gets stuck on driver actions: in every reachable state that is not at rest, the label computed
     by next_driver_label - a driver / worker label - is accepted *)
  Theorem VC05_no_deadlock tr s :
    vrun nxt sc vsys_init tr = Some s -> at_rest s = false ->
    exists l s', next_driver_label nxt s = Some l /\ driver_label l = true /\ vsys_step nxt sc s l = Some s'.
  Proof. intros H. apply no_deadlock_inv. exact (Inv_reachable tr s H). Qed.
  (* ... and conversely it proposes nothing exactly at rest *)
  Theorem VC05_next_label_none_iff_rest tr s :
    vrun nxt sc vsys_init tr = Some s -> (next_driver_label nxt s = None <-> at_rest s = true).
  Proof.
    intros H. split.
    - intros N. destruct (next_none nxt s N) as [X|(id & o & X)]; [exact X|]. exfalso.
      destruct (iNT nxt sc s (Inv_reachable tr s H)) as [Y _]. rewrite X in Y. exact Y.
    - intros R. destruct (next_driver_label nxt s) as [l|] eqn:N; [|reflexivity]. exfalso.
      apply at_rest_spec in R. destruct R as (R1 & R2 & R3 & R4 & R5). unfold next_driver_label in N.
      rewrite R5, R4, R1, R3, R2 in N. discriminate N.
  Qed.

  (* one round, for EVERY schedule function and every scheduler variant *)
  Theorem VC05_one_round tr s :
    vrun nxt sc vsys_init tr = Some s ->
    exists q s', driver_only q = true /\ vrun nxt sc s q = Some s' /\ vs_now s' = vs_now s
      /\ ((at_rest s' = true /\ cr_pending (vs_cron s') = cr_pending (vs_cron s) /\ cr_ins (vs_cron s') = cr_ins (vs_cron s))
          \/ (exists h, pt_min None (cr_pending (vs_cron s)) = Some h
                        /\ (forall p, In p (cr_pending (vs_cron s')) -> pt_ins p <> pt_ins h)
                        /\ cr_ins (vs_cron s') = S (cr_ins (vs_cron s)))).
  Proof.
    intros H. destruct (one_round_inv nxt sc _ s eq_refl (Inv_reachable tr s H)) as (q & s' & D & Hq & En & Z).
    exists q, s'. repeat (split; [assumption|]). destruct Z as [[Z1 (_ & _ & Z2 & Z3)]|(h & Z1 & Z2 & Z3 & _)]; [left; auto | right; eauto].
  Qed.

  Section Progress.
    Variable d : Z.
    Hypothesis Hd : 0 < d.
    Hypothesis Hnxt : forall e t, inst t + d <= inst (nxt e t).

    (* quiescence is reachable by the driver and the workers alone *)
    Lemma quiescence_reachable_ok tr s :
      vrun nxt sc vsys_init tr = Some s ->
      (forall p, In p (cr_pending (vs_cron s)) -> existsb is_now (pt_muts p) = false) ->
      exists q s', driver_only q = true /\ vrun nxt sc s q = Some s'
                   /\ vs_pc s' = PSelect /\ tm_pending (cr_timer (vs_cron s')) = false
                   /\ vs_results s' = [] /\ vs_accepted s' = [] /\ vs_running s' = []
                   /\ vs_now s' = vs_now s /\ pend_ext (vs_cron s) (vs_cron s')
                   (* the continuation is that of a disciplined driver over a fault-free store *)
                   /\ vdispatch_err_retried (owed s) q = true /\ has_failed_mark q = false
                   /\ (vdriver_ok tr = true -> vdriver_ok (tr ++ q) = true).
    Proof.
      intros H NN.
      destruct (quiesce_inv nxt d Hd Hnxt sc _ _ s eq_refl eq_refl (Inv_reachable tr s H) NN) as (q & s' & D & Hq & R & En & PE & Oq).
      apply at_rest_spec in R. destruct R as (R1 & R2 & R3 & R4 & R5). exists q, s'. repeat (split; [assumption|]).
      split; [apply Oq|]. split; [apply Oq|]. exact (driver_ok_app nxt sc tr s q H Oq).
    Qed.
    Theorem VC05_quiescence_reachable tr s :
      vrun nxt sc vsys_init tr = Some s ->
      (forall p, In p (cr_pending (vs_cron s)) -> existsb is_now (pt_muts p) = false) ->
      exists q s', driver_only q = true /\ vrun nxt sc s q = Some s'
                   /\ vs_pc s' = PSelect /\ tm_pending (cr_timer (vs_cron s')) = false
                   /\ vs_results s' = [] /\ vs_accepted s' = [] /\ vs_running s' = []
                   /\ vs_now s' = vs_now s /\ pend_ext (vs_cron s) (vs_cron s').
    Proof.
      intros H NN. destruct (quiescence_reachable_ok tr s H NN) as (q & s' & D & Hq & R1 & R2 & R3 & R4 & R5 & En & PE & _).
      exists q, s'. repeat (split; [assumption|]). exact PE.
    Qed.

    (* ... and there nothing pending is due; every occurrence that was pending and due in s has been popped (its
       insertion number is not pending any more) - together with all the catch-up occurrences that came due after it *)
    Theorem VC05_every_due_occurrence_is_served tr s :
      vrun nxt sc vsys_init tr = Some s -> vtimer_started tr = true -> vdriver_ok tr = true ->
      (forall p, In p (cr_pending (vs_cron s)) -> existsb is_now (pt_muts p) = false) ->
      exists q s', driver_only q = true /\ vrun nxt sc vsys_init (tr ++ q) = Some s'
                   /\ vs_pc s' = PSelect /\ tm_pending (cr_timer (vs_cron s')) = false
                   /\ vs_results s' = [] /\ vs_accepted s' = [] /\ vs_running s' = [] /\ vs_now s' = vs_now s
                   /\ (forall p, In p (cr_pending (vs_cron s')) -> inst (vs_now s') < inst (t_sched (pt_task p)))
                   /\ (forall p, In p (cr_pending (vs_cron s)) -> inst (t_sched (pt_task p)) <= inst (vs_now s) ->
                                 forall p', In p' (cr_pending (vs_cron s')) -> pt_ins p' <> pt_ins p).
    Proof.
      intros H St Ok NN.
      destruct (quiescence_reachable_ok tr s H NN) as (q & s' & D & Hq & R1 & R2 & R3 & R4 & R5 & En & PE & _ & _ & Ok').
      assert (H' : vrun nxt sc vsys_init (tr ++ q) = Some s') by (rewrite vrun_app, H; exact Hq).
      assert (St' : vtimer_started (tr ++ q) = true).
      { unfold vtimer_started in *. rewrite vstarted_flag_app, St. apply driver_only_flag. exact D. }
      pose proof (VC05_rest_no_due_state nxt sc (tr ++ q) s' H' (Ok' Ok) R1 R2 (started_at_select nxt sc _ s' H' St' R1)) as ND.
      exists q, s'. repeat (split; [assumption|]).
      intros p Hp Due p' Hp' E. pose proof (w_inv nxt s (i4 nxt sc s (Inv_reachable tr s H))) as I15.
      destruct PE as [_ PE]. destruct (PE p' Hp') as [X|X].
      - assert (p' = p) by (eapply (NoDup_map_inj_in pt_ins); [apply (i_nodup_ins nxt _ I15) | exact X | exact Hp | exact E]).
        subst p'. specialize (ND p Hp'). rewrite En in ND. lia.
      - pose proof (i_ins_le nxt _ I15 p Hp). lia.
    Qed.
  End Progress.
End Traces.

(* instants are integers (nanoseconds): a schedule whose next occurrence is strictly later advances by at least 1 *)
Theorem VC05_quiescence_reachable_strict nxt sc tr s :
  (forall e t, inst t < inst (nxt e t)) ->
  vrun nxt sc vsys_init tr = Some s ->
  (forall p, In p (cr_pending (vs_cron s)) -> existsb is_now (pt_muts p) = false) ->
  exists q s', driver_only q = true /\ vrun nxt sc s q = Some s'
               /\ vs_pc s' = PSelect /\ tm_pending (cr_timer (vs_cron s')) = false
               /\ vs_results s' = [] /\ vs_accepted s' = [] /\ vs_running s' = []
               /\ vs_now s' = vs_now s /\ pend_ext (vs_cron s) (vs_cron s').
Proof.
  intros Hs. apply (VC05_quiescence_reachable nxt sc 1); [lia|]. intros e t. specialize (Hs e t). lia.
Qed.
Theorem VC05_every_due_occurrence_is_served_strict nxt sc tr s :
  (forall e t, inst t < inst (nxt e t)) ->
  vrun nxt sc vsys_init tr = Some s -> vtimer_started tr = true -> vdriver_ok tr = true ->
  (forall p, In p (cr_pending (vs_cron s)) -> existsb is_now (pt_muts p) = false) ->
  exists q s', driver_only q = true /\ vrun nxt sc vsys_init (tr ++ q) = Some s'
               /\ vs_pc s' = PSelect /\ tm_pending (cr_timer (vs_cron s')) = false
               /\ vs_results s' = [] /\ vs_accepted s' = [] /\ vs_running s' = [] /\ vs_now s' = vs_now s
               /\ (forall p, In p (cr_pending (vs_cron s')) -> inst (vs_now s') < inst (t_sched (pt_task p)))
               /\ (forall p, In p (cr_pending (vs_cron s)) -> inst (t_sched (pt_task p)) <= inst (vs_now s) ->
                             forall p', In p' (cr_pending (vs_cron s')) -> pt_ins p' <> pt_ins p).
Proof.
  intros Hs. apply (VC05_every_due_occurrence_is_served nxt sc 1); [lia|]. intros e t. specialize (Hs e t). lia.
Qed.

(* ================================================================================================ *)
(* 7. Without a hypothesis on the schedule / the mutators quiescence is NOT reachable                *)
(* ================================================================================================ *)
Section Spin.
  Variable nxt : nat -> gtime -> gtime.
  Notation vstep := (vsys_step nxt).

  Lemma v_mark_disp_cron s id :
    vs_cron (fst (v_mark_disp nxt s id)) = vs_cron s
    \/ vs_cron (fst (v_mark_disp nxt s id)) = fst (pop nxt (vs_cron s) (vs_now s)).
  Proof.
    unfold v_mark_disp. match goal with |- context [if ?b then _ else _] => destruct b end.
    - right. destruct (pop nxt (vs_cron s) (vs_now s)) as [c' o]. reflexivity.
    - left. destruct (rec_get (vs_record s) id); reflexivity.
  Qed.

  (* a driver / worker label leaves the clock alone, and the pending set too unless the store pops *)
  Lemma driver_step_cron sc s l s' : driver_label l = true -> vstep sc s l = Some s' ->
    vs_now s' = vs_now s
    /\ (cr_pending (vs_cron s') = cr_pending (vs_cron s) \/ vs_cron s' = fst (pop nxt (vs_cron s) (vs_now s))).
  Proof.
    intros D H. destruct l; try discriminate D; unfold vsys_step in H; cbv beta iota zeta in H.
    - destruct (vs_pc s); inv H. vf. auto.
    - destruct (vs_pc s); try discriminate. destruct (vs_retry s); [|discriminate]. destruct (sstate_eqb s0 prev); [|discriminate].
      destruct prev; inv H; vf; auto.
    - destruct (vs_pc s) eqn:P; destruct c; cbv beta iota in H; try discriminate H;
        repeat match type of H with
               | (let (_, _) := v_mark_disp nxt s ?i in _) = _ =>
                 let M := fresh "M" in let Q := fresh "Q" in
                 pose proof (v_mark_disp_cron s i) as M; pose proof (v_mark_disp_now nxt s i) as Q;
                 destruct (v_mark_disp nxt s i) as [s1 x]; cbn [fst] in M, Q
               | (if ?b then _ else _) = _ => destruct b
               | match ?b with _ => _ end = _ => destruct b
               end; try discriminate H; inv H;
        repeat match goal with |- context [match ?b with _ => _ end] => destruct b end; vf; auto;
        try (split; [assumption|]; destruct M as [->| ->]; auto).
    - destruct (vs_pc s); try discriminate. destruct (tm_pending (cr_timer (vs_cron s))); inv H. vf. auto.
    - destruct (vs_pc s); try discriminate;
        repeat match type of H with
               | (if ?b then _ else _) = _ => destruct b
               | match ?b with _ => _ end = _ => destruct b
               end; try discriminate H; inv H; vf; auto.
    - repeat match type of H with
             | (if ?b then _ else _) = _ => destruct b
             | match ?b with _ => _ end = _ => destruct b
             end; try discriminate H; inv H; vf; auto.
    - repeat match type of H with
             | (if ?b then _ else _) = _ => destruct b
             | match ?b with _ => _ end = _ => destruct b
             end; try discriminate H; inv H; vf; auto.
  Qed.

  (* [Respin now muts]: the next occurrence of an entry with these mutators is due as soon as it is pushed *)
  Definition Respin (now : gtime) (muts : list mutator) : Prop :=
    forall k ins eid e, inst (t_sched (pt_task (wrap k muts ins now (entry_param nxt eid e)))) <= inst now.
  Definition SpinC (c : cron) (now : gtime) : Prop :=
    cr_pending c <> [] /\ forall p, In p (cr_pending c) -> inst (t_sched (pt_task p)) <= inst now /\ Respin now (pt_muts p).
  Definition Spin (s : vsys) : Prop := SpinC (vs_cron s) (vs_now s).

  Lemma pop_spin c now : SpinC c now -> SpinC (fst (pop nxt c now)) now.
  Proof.
    intros [Hne Hall]. unfold pop. destruct (pt_min None (cr_pending c)) as [h|] eqn:Hm; [|split; assumption].
    destruct (entries_get (cr_entries c) (pt_key h)) as [eid|]; [|split; assumption].
    destruct (arena_get (cr_arena c) eid) as [e|]; [|split; assumption].
    cbn [fst]. unfold SpinC. cbn [with_timer cr_pending].
    pose proof (proj1 (pop_is_min _ _ Hm)) as Hin. destruct (Hall h Hin) as [_ Rh]. split.
    - intros E. apply app_eq_nil in E. destruct E as [_ E]. discriminate E.
    - intros p Hp. apply in_app_or in Hp. destruct Hp as [Hp|[<-|[]]].
      + apply Hall. unfold pt_remove in Hp. apply filter_In in Hp. apply Hp.
      + split; [apply Rh | exact Rh].
  Qed.

  Lemma spin_run sc q : forall s s', driver_only q = true -> vrun nxt sc s q = Some s' -> Spin s -> Spin s'.
  Proof.
    induction q as [|l q IH]; intros s s' D H S; cbn [vrun] in H; [inv H; exact S|].
    cbn in D. apply andb_true_iff in D. destruct D as [D1 D2].
    destruct (vstep sc s l) as [s1|] eqn:St; [|discriminate]. apply (IH s1 s' D2 H).
    destruct (driver_step_cron sc s l s1 D1 St) as [En [Ep|Ec]]; unfold Spin, SpinC in *; rewrite En.
    - rewrite Ep. exact S.
    - rewrite Ec. apply pop_spin. exact S.
  Qed.

  (* from a reachable state of a started store in which every pending occurrence is due and re-spins, NO continuation
     made of driver / worker labels ever reaches rest - as long as the driver is in order (it answers DispatchErr with
     Retry, or no Pop inside MarkAsDispatched fails: otherwise the system can be stranded "at rest" with the head due,
     see VC05_spin_stranded) *)
  Theorem spin_never_rests sc tr s :
    vrun nxt sc vsys_init tr = Some s -> vtimer_started tr = true -> Spin s ->
    forall q s', driver_only q = true -> vdriver_ok (tr ++ q) = true -> vrun nxt sc s q = Some s' -> at_rest s' = false.
  Proof.
    intros H St S q s' D Ok Hq. destruct (at_rest s') eqn:R; [|reflexivity]. exfalso.
    apply at_rest_spec in R. destruct R as (R1 & R2 & _).
    assert (H' : vrun nxt sc vsys_init (tr ++ q) = Some s') by (rewrite vrun_app, H; exact Hq).
    assert (St' : vtimer_started (tr ++ q) = true).
    { unfold vtimer_started in *. rewrite vstarted_flag_app, St. apply driver_only_flag. exact D. }
    pose proof (VC05_rest_no_due_state nxt sc (tr ++ q) s' H' Ok R1 R2 (started_at_select nxt sc _ s' H' St' R1)) as ND.
    destruct (spin_run sc q s s' D Hq S) as [Hne Hall].
    destruct (cr_pending (vs_cron s')) as [|p r] eqn:E; [contradiction Hne; reflexivity|].
    specialize (ND p (or_introl eq_refl)). destruct (Hall p (or_introl eq_refl)) as [X _]. lia.
  Qed.
End Spin.

(* ---- witness 1: a cron row carrying the ScheduleAtNow mutator (the schedule itself is fine: every minute) ---- *)
Lemma norm_le t : inst (norm t) <= inst t.
Proof. unfold norm. cbn [inst]. pose proof (Z.mod_pos_bound (inst t) ms ltac:(unfold ms; lia)). lia. Qed.
Lemma respin_now nxt now : Respin nxt now [MNow].
Proof.
  intros k ins eid e. unfold wrap. cbn [pt_task rand_of fold_left apply_mutators mutate].
  unfold to_task, task_update. cbn [t_sched norm_task norm_uparam u_sched omap assign].
  pose proof (norm_le (norm now)). pose proof (norm_le now). lia.
Qed.
Definition row_now : crow :=
  mkRow (mkU (Some "w") None None (Some [("ngicks.ScheduleAtNow", "")]) None None) "h" (mkPO None None) (mkPO None None).
Definition tr_now : list vlabel := [VNew ex_t0 [(row_now, ex_t0)] [0%nat] true; VStartTimer ex_t0].
Definition s_now : vsys := match vrun ex_nxt scfg_fixed vsys_init tr_now with Some s => s | None => vsys_init end.
Lemma ex_nxt_progress : forall e t, inst t + 60000000000 <= inst (ex_nxt e t).
Proof. intros e t. cbn. lia. Qed.

Theorem VC05_quiescence_refuted_schedule_at_now :
  (* the schedule advances by a minute at every occurrence, the trace is accepted, the user started the timer ... *)
  (forall e t, inst t + 60000000000 <= inst (ex_nxt e t))
  /\ vrun ex_nxt scfg_fixed vsys_init tr_now = Some s_now /\ vtimer_started tr_now = true
  /\ map (fun p => pt_muts p) (cr_pending (vs_cron s_now)) = [[MNow]]
  (* ... and no continuation by the driver and the workers alone ever comes to rest: each Pop pushes the next
     occurrence scheduled "now", which is due at once *)
  /\ forall q s', driver_only q = true -> vdriver_ok q = true -> vrun ex_nxt scfg_fixed s_now q = Some s' -> at_rest s' = false.
Proof.
  split; [exact ex_nxt_progress|].
  assert (H : vrun ex_nxt scfg_fixed vsys_init tr_now = Some s_now) by (vm_compute; reflexivity).
  assert (E : map (fun p => (pt_muts p, inst (t_sched (pt_task p)) <=? inst (vs_now s_now))) (cr_pending (vs_cron s_now))
              = [([MNow], true)]) by (vm_compute; reflexivity).
  split; [exact H|]. split; [reflexivity|]. split; [vm_compute; reflexivity|].
  assert (SP : Spin ex_nxt s_now).
  { unfold Spin, SpinC. destruct (cr_pending (vs_cron s_now)) as [|p0 [|p1 r]]; try discriminate E.
    cbn [map] in E. inversion E as [[E1 E2]]. split; [discriminate|].
    intros p [<-|[]]. split; [apply Z.leb_le; exact E2 | rewrite E1; apply respin_now]. }
  intros q s' D Ok. apply (spin_never_rests ex_nxt scfg_fixed tr_now s_now H eq_refl SP q s' D). exact Ok.
Qed.

(* ---- witness 2: no mutator at all, but a schedule that does not advance ---- *)
Definition nxt_stuck : nat -> gtime -> gtime := fun _ _ => T 0 true.
Definition tr_stuck : list vlabel := [VNew ex_t0 [(ex_row, ex_t0)] [0%nat] true; VStartTimer ex_t0].
Definition s_stuck : vsys := match vrun nxt_stuck scfg_fixed vsys_init tr_stuck with Some s => s | None => vsys_init end.
Lemma respin_stuck now : 0 <= inst now -> Respin nxt_stuck now [].
Proof.
  intros Hn k ins eid e. unfold wrap. cbn [pt_task rand_of fold_left apply_mutators].
  unfold to_task, task_update. cbn. exact Hn.
Qed.
Theorem VC05_quiescence_refuted_stuck_schedule :
  vrun nxt_stuck scfg_fixed vsys_init tr_stuck = Some s_stuck /\ vtimer_started tr_stuck = true
  /\ map (fun p => pt_muts p) (cr_pending (vs_cron s_stuck)) = [[]]
  /\ forall q s', driver_only q = true -> vdriver_ok q = true -> vrun nxt_stuck scfg_fixed s_stuck q = Some s' -> at_rest s' = false.
Proof.
  assert (H : vrun nxt_stuck scfg_fixed vsys_init tr_stuck = Some s_stuck) by (vm_compute; reflexivity).
  assert (E : map (fun p => (pt_muts p, inst (t_sched (pt_task p)) <=? inst (vs_now s_stuck))) (cr_pending (vs_cron s_stuck))
              = [([], true)]) by (vm_compute; reflexivity).
  assert (En : vs_now s_stuck = ex_t0) by (vm_compute; reflexivity).
  split; [exact H|]. split; [reflexivity|]. split; [vm_compute; reflexivity|].
  assert (SP : Spin nxt_stuck s_stuck).
  { unfold Spin, SpinC. destruct (cr_pending (vs_cron s_stuck)) as [|p0 [|p1 r]]; try discriminate E.
    cbn [map] in E. inversion E as [[E1 E2]]. split; [discriminate|].
    intros p [<-|[]]. split; [apply Z.leb_le; exact E2 | rewrite E1, En; apply respin_stuck; cbn; lia]. }
  intros q s' D Ok. apply (spin_never_rests nxt_stuck scfg_fixed tr_stuck s_stuck H eq_refl SP q s' D). exact Ok.
Qed.

(* ================================================================================================ *)
(* 8. The continuation as a program; non-vacuity                                                     *)
(* ================================================================================================ *)
Fixpoint drive (nxt : nat -> gtime -> gtime) (sc : scfg) (fuel : nat) (s : vsys) : list vlabel * vsys :=
  match fuel with
  | O => ([], s)
  | S f => match next_driver_label nxt s with
           | None => ([], s)
           | Some l => match vsys_step nxt sc s l with
                       | Some s' => let (q, s'') := drive nxt sc f s' in (l :: q, s'')
                       | None => ([], s)
                       end
           end
  end.
Lemma next_label_driver nxt s l : next_driver_label nxt s = Some l -> driver_label l = true.
Proof.
  unfold next_driver_label. destruct (vs_running s); [|intros E; inv E; reflexivity].
  destruct (vs_accepted s) as [|[i t] a]; [|intros E; inv E; reflexivity].
  destruct (vs_pc s); try (intros E; inv E; reflexivity).
  - destruct (vs_retry s) as [[]|]; intros E; inv E; reflexivity.
  - destruct (vs_err s); intros E; inv E; reflexivity.
  - destruct (vs_last s); intros E; inv E; reflexivity.
  - destruct (vs_results s) as [|[i o] r]; [destruct (tm_pending _); intros E; inv E; reflexivity|].
    destruct o; intros E; inv E; reflexivity.
  - destruct (pt_min None _); intros E; inv E; reflexivity.
Qed.
Lemma drive_sound nxt sc fuel : forall s q s', drive nxt sc fuel s = (q, s') ->
  driver_only q = true /\ vrun nxt sc s q = Some s'.
Proof.
  induction fuel as [|f IH]; intros s q s' H; cbn [drive] in H; [inv H; auto|].
  destruct (next_driver_label nxt s) as [l|] eqn:N; [|inv H; auto].
  destruct (vsys_step nxt sc s l) as [s1|] eqn:S; [|inv H; auto].
  destruct (drive nxt sc f s1) as [q1 s2] eqn:D. inv H. destruct (IH s1 q1 s' D) as [D1 D2].
  split; [cbn; rewrite (next_label_driver nxt s l N); exact D1 | cbn [vrun]; rewrite S; exact D2].
Qed.

(* a cron row "every minute" created at 00:00; the scheduler blocks in select, then the clock jumps to 00:03:20:
   three occurrences (00:01, 00:02, 00:03) are due one after the other (catch-up) *)
Definition tr_jump : list vlabel :=
  [VNew ex_t0 [(ex_row, ex_t0)] [0%nat] true; VStartTimer ex_t0; VStepBegin; VCall CLtue (RBool false); VCall CTimerCh RUnit;
   VAdvance (T 200000000000 true)].
Definition s_jump : vsys := match vrun ex_nxt scfg_fixed vsys_init tr_jump with Some s => s | None => vsys_init end.
Example VC05_live_catch_up_computed :
  vrun ex_nxt scfg_fixed vsys_init tr_jump = Some s_jump
  /\ (let (q, s') := drive ex_nxt scfg_fixed 500 s_jump in
      (List.length q, at_rest s', map (fun x => (fst (fst x), inst (t_sched (snd x)))) (vs_starts s'),
       map (fun p => (pt_ins p, inst (t_sched (pt_task p)))) (cr_pending (vs_cron s')), cr_timer (vs_cron s'),
       vall_ok (tr_jump ++ q)))
     = (57%nat, true, [("aaa", 180000000000); ("aa", 120000000000); ("a", 60000000000)],
        [(4%nat, 240000000000)], mkTimer (Some 240000000000) false, true).
Proof. split; vm_compute; reflexivity. Qed.
(* the theorem applied to that state: its hypotheses are satisfiable *)
Example VC05_live_nonvacuous :
  exists q s', driver_only q = true /\ vrun ex_nxt scfg_fixed vsys_init (tr_jump ++ q) = Some s'
               /\ vs_pc s' = PSelect /\ tm_pending (cr_timer (vs_cron s')) = false
               /\ vs_results s' = [] /\ vs_accepted s' = [] /\ vs_running s' = []
               /\ (forall p, In p (cr_pending (vs_cron s')) -> inst (vs_now s') < inst (t_sched (pt_task p)))
               /\ (forall p', In p' (cr_pending (vs_cron s')) -> pt_ins p' <> 1%nat).
Proof.
  assert (H : vrun ex_nxt scfg_fixed vsys_init tr_jump = Some s_jump) by (vm_compute; reflexivity).
  assert (E : map (fun p => (pt_ins p, pt_muts p, inst (t_sched (pt_task p)) <=? inst (vs_now s_jump))) (cr_pending (vs_cron s_jump))
              = [(1%nat, [], true)]) by (vm_compute; reflexivity).
  destruct (cr_pending (vs_cron s_jump)) as [|p0 [|p1 r]] eqn:Ep; try discriminate E.
  cbn [map] in E. injection E as E1 E2 E3.
  assert (En0 : vs_now s_jump = T 200000000000 true) by (vm_compute; reflexivity).
  destruct (VC05_every_due_occurrence_is_served ex_nxt scfg_fixed 60000000000 ltac:(lia) ex_nxt_progress tr_jump s_jump H eq_refl eq_refl)
    as (q & s' & D & Hq & R1 & R2 & R3 & R4 & R5 & En & ND & SV).
  { rewrite Ep. intros p [<-|[]]. rewrite E2. reflexivity. }
  exists q, s'. repeat (split; [assumption|]). intros p' Hp'. rewrite <- E1. apply (SV p0); [rewrite Ep; left; reflexivity | rewrite En0; apply Z.leb_le; exact E3 | exact Hp'].
Qed.
(* the ScheduleAtNow row of section 7, driven by the same program: 400 labels later 21 tasks have started and the
   head is due again *)
Example VC05_spin_computed :
  (let (q, s') := drive ex_nxt scfg_fixed 400 s_now in
   (List.length q, at_rest s', List.length (vs_starts s'),
    map (fun p => inst (t_sched (pt_task p)) <=? inst (vs_now s')) (cr_pending (vs_cron s'))))
  = (400%nat, false, 21%nat, [true]).
Proof. vm_compute. reflexivity. Qed.

(* a Pop inside MarkAsDispatched fails once (nothing popped, the fire is consumed, the timer idle): Step returns
   DispatchErr; [drive] answers with Retry(DispatchErr), which finds the record again, dispatches (the store pops and
   re-arms for 00:02), the task runs once; the system comes to rest in 15 labels *)
Definition tr_fail : list vlabel :=
  (ex_prefix ++
   [VCall CGetNext (RRes (RTask ex_obs)); VCall CNextSched (RTime (Some ex_t1)); VStepEnd (SNextTask true (Some ex_obs)) false;
    VStepBegin; VCall CLtue (RBool false); VCall (CMarkDisp "A") (RRes (RErr EOther)); VStepEnd (SDispatchErr ex_obs) false])%list.
Definition s_fail : vsys := match vrun ex_nxt scfg_fixed vsys_init tr_fail with Some s => s | None => vsys_init end.
Example VC05_live_retry_computed :
  vrun ex_nxt scfg_fixed vsys_init tr_fail = Some s_fail /\ owed s_fail = true
  /\ next_driver_label ex_nxt s_fail = Some (VRetryBegin (SDispatchErr ex_obs))
  /\ (let (q, s') := drive ex_nxt scfg_fixed 100 s_fail in
      (List.length q, at_rest s', map (fun x => (fst (fst x), inst (t_sched (snd x)))) (vs_starts s'),
       map (fun p => (pt_ins p, inst (t_sched (pt_task p)))) (cr_pending (vs_cron s')), cr_timer (vs_cron s'),
       vall_ok (tr_fail ++ q), vtrace_disciplined (tr_fail ++ q), has_failed_mark (tr_fail ++ q)))
     = (15%nat, true, [("A", 60000000000)], [(2%nat, 120000000000)], mkTimer (Some 120000000000) false, true, true, true).
Proof. split; [vm_compute; reflexivity|]. split; [vm_compute; reflexivity|]. split; vm_compute; reflexivity. Qed.
(* the theorem applies to that state (the driver of tr_fail is disciplined so far: nothing has been answered yet) *)
Example VC05_live_retry_by_theorem :
  exists q s', driver_only q = true /\ vrun ex_nxt scfg_fixed vsys_init (tr_fail ++ q) = Some s'
               /\ vs_pc s' = PSelect /\ tm_pending (cr_timer (vs_cron s')) = false
               /\ (forall p, In p (cr_pending (vs_cron s')) -> inst (vs_now s') < inst (t_sched (pt_task p))).
Proof.
  assert (H : vrun ex_nxt scfg_fixed vsys_init tr_fail = Some s_fail) by (vm_compute; reflexivity).
  assert (E : map (fun p => pt_muts p) (cr_pending (vs_cron s_fail)) = [[]]) by (vm_compute; reflexivity).
  destruct (VC05_every_due_occurrence_is_served ex_nxt scfg_fixed 60000000000 ltac:(lia) ex_nxt_progress tr_fail s_fail H eq_refl eq_refl)
    as (q & s' & D & Hq & R1 & R2 & _ & _ & _ & _ & ND & _).
  { intros p Hp. apply (in_map (fun p => pt_muts p)) in Hp. rewrite E in Hp. destruct Hp as [<-|[]]. reflexivity. }
  exists q, s'. repeat (split; [assumption|]). exact ND.
Qed.

(* the driver hypothesis of the two refutations (and of VC05_every_due_occurrence_is_served) is needed: from s_now a Pop
   fails and the driver answers the DispatchErr with Step - the system is "at rest" (select, no fire) with the head due *)
Definition obs_now : task :=
  mkTask "a" "w" 0 Scheduled "" [] [("ngicks.ScheduleAtNow", ""); ("ngicks.ScheduleHash", "h")] ex_t0 ex_t0 None None None None.
Definition q_strand : list vlabel :=
  (firstn 9 (fst (drive ex_nxt scfg_fixed 12 s_now)) ++
   [VCall (CMarkDisp "a") (RRes (RErr EOther)); VStepEnd (SDispatchErr obs_now) false;
    VStepBegin; VCall CLtue (RBool false); VCall CTimerCh RUnit])%list.
Example VC05_spin_stranded :
  driver_only q_strand = true /\ vdriver_ok q_strand = false
  /\ exists s', vrun ex_nxt scfg_fixed s_now q_strand = Some s' /\ at_rest s' = true
                /\ map (fun p => inst (t_sched (pt_task p)) <=? inst (vs_now s')) (cr_pending (vs_cron s')) = [true].
Proof. split; [vm_compute; reflexivity|]. split; [vm_compute; reflexivity|]. eexists. split; [vm_compute; reflexivity|]. vm_compute. split; reflexivity. Qed.

Print Assumptions VC05_no_deadlock.
Print Assumptions VC05_next_label_none_iff_rest.
Print Assumptions VC05_one_round.
Print Assumptions VC05_quiescence_reachable.
Print Assumptions VC05_every_due_occurrence_is_served.
Print Assumptions VC05_quiescence_reachable_strict.
Print Assumptions VC05_every_due_occurrence_is_served_strict.
Print Assumptions spin_never_rests.
Print Assumptions VC05_quiescence_refuted_schedule_at_now.
Print Assumptions VC05_quiescence_refuted_stuck_schedule.
Print Assumptions drive_sound.
Print Assumptions VC05_live_catch_up_computed.
Print Assumptions VC05_live_nonvacuous.
Print Assumptions VC05_spin_computed.
Print Assumptions VC05_live_retry_computed.
Print Assumptions VC05_live_retry_by_theorem.
Print Assumptions VC05_spin_stranded.
