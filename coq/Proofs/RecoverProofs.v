(* Proofs/RecoverProofs.v — RevertDispatched / CancelDispatched (C13), snapshots (C14 at the level of
   the specification), and marker-freeness (C19). *)
From GK Require Import PropCheck.
From GK.Proofs Require Import BaseLemmas RepoProofs.

(* ---------- C13 ---------- *)
Lemma undispatch_other t : t_state t <> Dispatched -> undispatch t = t.
Proof.
  unfold undispatch. destruct (state_eqb (t_state t) Dispatched) eqn:E; auto.
  apply state_eqb_eq in E. congruence.
Qed.
Lemma undispatch_dispatched t : t_state t = Dispatched ->
  undispatch t = mkTask (t_id t) (t_work t) (t_prio t) Scheduled (t_err t) (t_param t) (t_meta t) (t_sched t)
                        (t_created t) (t_deadline t) (t_cancelled t) None (t_done t).
Proof. intros E. unfold undispatch. rewrite E. reflexivity. Qed.

Lemma undispatch_set_dispatched t now :
  wf_task t = true -> t_state t = Scheduled -> undispatch (set_dispatched t now) = t.
Proof.
  intros W E. apply wf_task_parts in W. destruct W as (_ & _ & S). unfold stamps_ok in S. rewrite E in S.
  bsplit. destruct S as (((_ & D) & _) & _). unfold is_none in D. apply negb_true_iff in D.
  destruct t; cbn in *. subst. destruct t_dispatched; [discriminate | reflexivity].
Qed.

Theorem lookup_map_undispatch id s : lookup id (map undispatch s) = omap undispatch (lookup id s).
Proof.
  induction s as [|x s IH]; cbn; [reflexivity|]. rewrite undispatch_id.
  destruct (String.eqb id (t_id x)); auto.
Qed.
Theorem lookup_map_cancel_dispatched now id s :
  lookup id (map (cancel_if_dispatched now) s) = omap (cancel_if_dispatched now) (lookup id s).
Proof.
  induction s as [|x s IH]; cbn; [reflexivity|]. rewrite cancel_if_dispatched_id.
  destruct (String.eqb id (t_id x)); auto.
Qed.
Lemma cancel_if_dispatched_other now t : t_state t <> Dispatched -> cancel_if_dispatched now t = t.
Proof.
  unfold cancel_if_dispatched. destruct (state_eqb (t_state t) Dispatched) eqn:E; auto.
  apply state_eqb_eq in E. congruence.
Qed.

Lemma map_undispatch_id s : (forall u, In u s -> t_state u <> Dispatched) -> map undispatch s = s.
Proof.
  induction s as [|x s IH]; cbn; intros H; [reflexivity|].
  rewrite undispatch_other by (apply H; auto). f_equal. apply IH. intros u Hu. apply H. auto.
Qed.

(* dispatch then revert = nothing happened: the reverted task is the never-dispatched task, so every
   continuation of the history behaves identically *)
Theorem revert_undoes_dispatch c s id t now :
  wf_repo s -> (forall u, In u s -> t_state u <> Dispatched) ->
  lookup id s = Some t -> t_state t = Scheduled ->
  fst (step c (fst (step c s (ODispatch false now id))) ORevert) = s.
Proof.
  intros W ND L E. cbn [step]. rewrite L. unfold guarded. rewrite E. cbn.
  pose proof (wf_lookup _ _ _ W L) as Wt. pose proof (lookup_id _ _ _ L) as I.
  destruct W as [N _]. subst id. revert N ND L. clear -Wt E. induction s as [|x s IH]; cbn; intros N ND L; [discriminate|].
  inv N. destruct (String.eqb_spec (t_id t) (t_id x)) as [Ex|NEx].
  - inv L. pose proof (undispatch_set_dispatched t now Wt E) as U. cbn in U |- *. rewrite U. f_equal.
    apply map_undispatch_id. intros u Hu. apply ND. auto.
  - cbn. rewrite undispatch_other by (apply ND; auto). f_equal. apply IH; auto.
Qed.
Corollary revert_undoes_continuation c s id t now ops :
  wf_repo s -> (forall u, In u s -> t_state u <> Dispatched) ->
  lookup id s = Some t -> t_state t = Scheduled ->
  outputs c (fst (step c (fst (step c s (ODispatch false now id))) ORevert)) ops = outputs c s ops.
Proof. intros. erewrite revert_undoes_dispatch; eauto. Qed.

(* ---------- C14 (specification level) ---------- *)
Lemma wf_repo_valid s : wf_repo s -> forallb is_valid s = true.
Proof.
  intros [_ F]. rewrite forallb_forall. rewrite Forall_forall in F. intros x Hx.
  apply F in Hx. apply wf_task_parts in Hx. tauto.
Qed.
Theorem load_save_identity c s target : wf_repo s -> step c target (OLoad s) = (s, ROk).
Proof. intros W. cbn. rewrite wf_repo_valid by assumption. reflexivity. Qed.
Theorem load_invalid_rejected c kv target :
  forallb is_valid kv = false -> step c target (OLoad kv) = (target, RErr EInvalidTask).
Proof. intros H. cbn. rewrite H. reflexivity. Qed.
Theorem snapshot_roundtrip_outputs c s ops : wf_repo s ->
  outputs c (fst (step c [] (OLoad s))) ops = outputs c s ops.
Proof. intros W. rewrite load_save_identity by assumption. reflexivity. Qed.

(* ---------- C19: the specification never manufactures the scribble marker ---------- *)
Definition unmarked (t : task) : Prop := marked_task t = false.
Definition uparam_unmarked (p : uparam) : Prop :=
  match u_param p with Some m => marked_map m = false | None => True end /\
  match u_meta p with Some m => marked_map m = false | None => True end.
Definition op_unmarked (o : op) : Prop :=
  match o with
  | OAdd _ _ _ p | OUpdate _ _ p => uparam_unmarked p
  | OLoad kv => Forall unmarked kv
  | _ => True
  end.

Lemma unmarked_update t p : unmarked t -> uparam_unmarked p -> unmarked (task_update t p).
Proof.
  unfold unmarked, marked_task, task_update, norm_task, uparam_unmarked; cbn.
  intros H [H1 H2]. apply orb_false_iff in H. destruct H as [Hp Hm]. apply orb_false_iff.
  destruct (u_param p), (u_meta p); cbn; auto.
Qed.
Lemma unmarked_norm_uparam p : uparam_unmarked p -> uparam_unmarked (norm_uparam p).
Proof. unfold uparam_unmarked, norm_uparam; cbn. auto. Qed.

Lemma replace_Forall' (P : task -> Prop) t' s : Forall P s -> P t' -> Forall P (replace t' s).
Proof. apply replace_Forall. Qed.

Theorem step_unmarked c s o : Forall unmarked s -> op_unmarked o ->
  Forall unmarked (fst (step c s o)) /\ Forall unmarked (res_tasks (snd (step c s o))).
Proof.
  intros F Ho. assert (Fl : forall id t, lookup id s = Some t -> unmarked t).
  { intros id t L. rewrite Forall_forall in F. apply F. eapply lookup_in; eauto. }
  assert (G : forall t want ek upd, unmarked upd ->
            Forall unmarked (fst (guarded t want ek s upd)) /\ Forall unmarked (res_tasks (snd (guarded t want ek s upd)))).
  { intros t want ek upd U. unfold guarded. destruct (negb _); [destruct (ek t); cbn; auto|]. cbn.
    split; [apply replace_Forall; auto | constructor]. }
  destruct o; cbn [step].
  - set (t := to_task (norm_uparam p) fresh now).
    assert (U : unmarked t).
    { apply unmarked_update; [reflexivity | apply unmarked_norm_uparam; exact Ho]. }
    destruct (c_add_valid_first c); destruct (negb (is_valid t)); destruct ctx; cbn; auto;
      (split; [apply Forall_app; auto | auto]).
  - destruct ctx; cbn; auto. destruct (lookup id s) eqn:L; cbn; eauto.
  - destruct (c_upd_valid_first c && invalid_update p); cbn; auto. destruct ctx; cbn; auto.
    destruct (lookup id s) as [t|] eqn:L; cbn; auto.
    destruct (negb (state_eqb _ _)); [destruct (err_kind_update t); cbn; auto|].
    destruct (negb (is_valid _)); cbn; auto. split; [|constructor].
    apply replace_Forall; auto. apply unmarked_update; eauto using unmarked_norm_uparam.
  - destruct ctx; cbn; auto. destruct (lookup id s) as [t|] eqn:L; cbn; auto. apply G. apply (Fl _ _ L).
  - destruct ctx; cbn; auto. destruct (lookup id s) as [t|] eqn:L; cbn; auto. apply G. apply (Fl _ _ L).
  - destruct ctx; cbn; auto. destruct (lookup id s) as [t|] eqn:L; cbn; auto. apply G. apply (Fl _ _ L).
  - destruct (c_find_ctx c && ctx); cbn; auto. split; auto. rewrite Forall_forall in *. intros t H.
    unfold find in H. apply find_loop_in in H. destruct (c_find_by_created c); [apply sort_created_in in H|]; auto.
  - destruct (c_next_ctx c && ctx); cbn; auto. destruct (get_next s) eqn:Gn; cbn; auto. split; auto.
    constructor; auto. apply min_task_in in Gn. destruct Gn; [discriminate|]. rewrite Forall_forall in F. auto.
  - cbn. split; auto. rewrite Forall_map. eapply Forall_impl; [|exact F]. intros t U.
    unfold unmarked, marked_task, undispatch in *. destruct (state_eqb _ _); auto.
  - cbn. split; auto. rewrite Forall_map. eapply Forall_impl; [|exact F]. intros t U.
    unfold unmarked, marked_task, cancel_if_dispatched in *. destruct (state_eqb _ _); auto.
  - cbn. split; auto. rewrite Forall_forall in *. intros t H. apply filter_In in H. apply F. tauto.
  - destruct (forallb is_valid kv); cbn; auto.
Qed.
