(* Proofs/PredProofs.v — the boolean property predicates of PropCheck.v hold of the model's own
   observation of every step (model_obs, Proofs/RepoProofs2.v).  p_C01 and p_C12 are done in
   RepoProofs2.v; this file does p_C02, p_C13, p_load, p_C19 and p_C11.

   Key lemma (obs_next_model): the state the harness RECONSTRUCTS from the reported diff is exactly
   the state the specification moves to,
       obs_next s o (model_obs c s o) = fst (step c s o)        (wf_repo s, op_ok s o)
   as lists (same tasks, same insertion order).  It rests on three shapes a step can have
   (same ids / one fresh id appended / a filter of the old list) and one lemma per shape about
   apply_diff on the model's diff.

   Results
   - model_obs_C02  : exactly as stated, for EVERY cfg (no hypothesis on c_tie_free / c_next_ctx is needed:
                      the model returns the FIFO minimum, which is also acceptable when ties are free,
                      and a context error is only ever produced with ctx = true).
                      Corollaries model_obs_C02_inmem, model_obs_C02_ent.
   - model_obs_C13  : exactly as stated.
   - model_obs_load : exactly as stated (model_obs_load_gen: even without wf_repo / op_ok).
   - model_obs_C19  : needs  Forall unmarked s  and  op_unmarked o  (wf_repo / op_ok are not used).
                      Without them the statement is false: a stored task that already carries the
                      marker is handed out by GetById (model_obs_C19_unrestricted_refuted).
   - model_obs_C11  : p_C11 compares with the DOCUMENTED rule (doc_cfg c).  [find] reads three fields of
                      the configuration: c_find_by_created (kept by doc_cfg), c_like_ci (forced to false)
                      and c_norm_deadline (forced to true).  Hence the statement holds iff
                          c_like_ci c = false  /\  c_norm_deadline c = true
                      (model_obs_C11 for the "if", model_obs_C11_iff for both directions).
                      Instance model_obs_C11_inmem.  For cfg_ent (SQLite LIKE is ASCII-case-insensitive,
                      known finding F4) the statement is FALSE: model_obs_C11_ent_refuted (one task with
                      param k=Hello, Find with the Forward matcher k=hell: the model of ent returns the
                      task, the documented rule says no match).  model_obs_C11_like_ci_refuted and
                      model_obs_C11_no_norm_deadline_refuted show that each of the two hypotheses is
                      necessary for every configuration. *)
From GK Require Import PropCheck.
From GK.Proofs Require Import BaseLemmas RepoProofs RepoProofs2 FindProofs RecoverProofs.
From Coq Require Import Permutation.

(* ---------- small list facts ---------- *)
Lemma ids_of_map (s : repo) : ids_of s = map t_id s.
Proof. induction s as [|x s IH]; cbn; congruence. Qed.

Lemma in_ids_of (id : string) (s : repo) : In id (ids_of s) <-> exists t, In t s /\ t_id t = id.
Proof.
  rewrite ids_of_map, in_map_iff. split; intros (t & A & B); exists t; auto.
Qed.

Definition smem (x : string) (l : list string) : bool := existsb (String.eqb x) l.
Lemma smem_In (x : string) (l : list string) : smem x l = true <-> In x l.
Proof.
  unfold smem. rewrite existsb_exists. split.
  - intros (y & Hy & E). apply String.eqb_eq in E. subst; auto.
  - intros H. exists x. split; auto. apply String.eqb_refl.
Qed.
Lemma smem_false (x : string) (l : list string) : smem x l = false <-> ~ In x l.
Proof. rewrite <- smem_In. destruct (smem x l); intuition congruence. Qed.

Lemma filter_nil_all {A} (f : A -> bool) (l : list A) : (forall x, In x l -> f x = false) -> filter f l = [].
Proof.
  induction l as [|x l IH]; cbn; intros H; [reflexivity|].
  rewrite (H x) by auto. apply IH. intros y Hy. apply H. auto.
Qed.
Lemma filter_all_true {A} (f : A -> bool) (l : list A) : (forall x, In x l -> f x = true) -> filter f l = l.
Proof.
  induction l as [|x l IH]; cbn; intros H; [reflexivity|].
  rewrite (H x) by auto. f_equal. apply IH. intros y Hy. apply H. auto.
Qed.
Lemma filter_filter {A} (f g : A -> bool) (l : list A) :
  filter g (filter f l) = filter (fun x => f x && g x) l.
Proof.
  induction l as [|x l IH]; cbn; [reflexivity|].
  destruct (f x); cbn; [destruct (g x)|]; rewrite IH; reflexivity.
Qed.

Lemma nodup_snoc {A} (l : list A) (x : A) : NoDup l -> ~ In x l -> NoDup (l ++ [x]).
Proof.
  intros N H. apply (Permutation_NoDup (Permutation_cons_append l x)). constructor; assumption.
Qed.

(* dedup keeps the last occurrence *)
Lemma dedup_nodup (l : list string) : NoDup l -> dedup l = l.
Proof.
  induction 1 as [|x l Hx N IH]; cbn; [reflexivity|].
  apply smem_false in Hx. unfold smem in Hx. rewrite Hx, IH. reflexivity.
Qed.
Lemma dedup_app (l1 l2 : list string) : NoDup l1 -> NoDup l2 ->
  dedup (l1 ++ l2) = (filter (fun x => negb (smem x l2)) l1 ++ l2)%list.
Proof.
  intros N1 N2. induction N1 as [|x l1 Hx N1 IH]; cbn [app filter dedup]; [apply dedup_nodup; exact N2|].
  rewrite existsb_app. apply smem_false in Hx. unfold smem in *. rewrite Hx. cbn [orb].
  destruct (existsb (String.eqb x) l2); cbn [negb app]; rewrite IH; reflexivity.
Qed.

Lemma in_lookup_nodup (s : repo) (t : task) : NoDup (ids_of s) -> In t s -> lookup (t_id t) s = Some t.
Proof.
  induction s as [|x s IH]; cbn; intros N H; [tauto|]. inv N.
  destruct H as [->|H]; [rewrite String.eqb_refl; reflexivity|].
  destruct (String.eqb_spec (t_id t) (t_id x)) as [E|E]; auto.
  exfalso. apply H2. rewrite <- E. apply in_ids_of. eauto.
Qed.

(* two repositories with the same ids in the same order and the same contents are equal *)
Lemma repo_ext (a : repo) : forall b : repo, NoDup (ids_of a) -> ids_of a = ids_of b ->
  (forall x, lookup x a = lookup x b) -> a = b.
Proof.
  induction a as [|x a IH]; intros [|y b] N I L; cbn in I; try discriminate; [reflexivity|].
  injection I as I1 I2. inv N.
  pose proof (L (t_id x)) as Lx. cbn [lookup] in Lx. rewrite <- I1 in Lx. rewrite String.eqb_refl in Lx.
  injection Lx as <-. f_equal. apply IH; auto.
  intros z. specialize (L z). cbn [lookup] in L.
  destruct (String.eqb_spec z (t_id x)) as [Ez|NE]; auto.
  rewrite Ez. rewrite (proj2 (lookup_none_ids (t_id x) a)) by assumption.
  symmetry. apply lookup_none_ids. rewrite <- I2. assumption.
Qed.

Lemma tasks_eqb_refl (l : list task) : tasks_eqb l l = true.
Proof. induction l as [|x l IH]; cbn; [reflexivity|]. rewrite task_eqb_refl, IH. reflexivity. Qed.

(* ---------- apply_diff on the model's diff ---------- *)
Local Notation diff_of s' L := (map (fun id : string => (id, lookup id s')) L).

Lemma apply_diff_cons (s : repo) (id : string) (ot : option task) (d : list (string * option task)) :
  apply_diff s ((id, ot) :: d) =
  apply_diff (match ot with
              | Some t => if is_some (lookup id s) then replace t s else (s ++ [t])%list
              | None => remove_id id s
              end) d.
Proof. reflexivity. Qed.
Lemma apply_diff_nil (s : repo) : apply_diff s [] = s.
Proof. reflexivity. Qed.

(* shape 1: the ids (and their order) are unchanged *)
Lemma apply_same_ids_gen (s' : repo) : forall (L : list string) (cur : repo),
  ids_of cur = ids_of s' -> (forall id, In id L -> In id (ids_of s')) ->
  ids_of (apply_diff cur (diff_of s' L)) = ids_of s' /\
  forall x, lookup x (apply_diff cur (diff_of s' L)) = if smem x L then lookup x s' else lookup x cur.
Proof.
  induction L as [|id L IH]; intros cur I Sub; cbn [map].
  - split; auto.
  - rewrite apply_diff_cons.
    assert (Hid : In id (ids_of s')) by (apply Sub; left; reflexivity).
    destruct (lookup id s') as [t|] eqn:Ls; [|apply lookup_none_ids in Ls; contradiction].
    destruct (lookup id cur) as [t0|] eqn:Lc; [|apply lookup_none_ids in Lc; rewrite I in Lc; contradiction].
    cbn [is_some].
    pose proof (lookup_id _ _ _ Ls) as Ti.
    destruct (IH (replace t cur)) as [I2 L2].
    + rewrite ids_replace; auto.
    + intros id' Hin; apply Sub; right; exact Hin.
    + split; [exact I2|]. intros x. rewrite L2. unfold smem; cbn [existsb].
      rewrite lookup_replace, Ti.
      destruct (String.eqb_spec x id) as [->|NE]; cbn [orb]; [|reflexivity].
      rewrite Lc, Ls. destruct (existsb (String.eqb id) L); reflexivity.
Qed.

Lemma apply_model_diff_same_ids (s s' : repo) : NoDup (ids_of s) -> ids_of s' = ids_of s ->
  apply_diff s (diff_of s' (model_diff s s')) = s'.
Proof.
  intros N I. unfold model_diff. rewrite I, dedup_app by assumption.
  rewrite (filter_nil_all (fun x => negb (smem x (ids_of s)))), app_nil_l
    by (intros x Hx; apply smem_In in Hx; rewrite Hx; reflexivity).
  destruct (apply_same_ids_gen s' (filter (changed s s') (ids_of s)) s) as [I2 L2]; [auto| |].
  - intros id H. apply filter_In in H. rewrite I. tauto.
  - apply repo_ext; [rewrite I2, I; exact N | exact I2 |].
    intros x. rewrite L2. destruct (smem x (filter (changed s s') (ids_of s))) eqn:M; [reflexivity|].
    apply smem_false in M. rewrite filter_In in M.
    destruct (smem x (ids_of s)) eqn:M2.
    + apply smem_In in M2. unfold changed in M.
      destruct (otask_eqb (lookup x s) (lookup x s')) eqn:E; [apply otask_eqb_eq in E; exact E|].
      exfalso. apply M. split; auto.
    + apply smem_false in M2. rewrite (proj2 (lookup_none_ids x s)) by assumption.
      symmetry. apply lookup_none_ids. rewrite I. assumption.
Qed.

(* shape 2: one task with a fresh id is appended *)
Lemma apply_model_diff_app (s : repo) (t : task) : NoDup (ids_of s) -> ~ In (t_id t) (ids_of s) ->
  apply_diff s (diff_of (s ++ [t]) (model_diff s (s ++ [t]))) = (s ++ [t])%list.
Proof.
  intros N Hf.
  assert (N' : NoDup (ids_of (s ++ [t]))) by (rewrite ids_app; apply nodup_snoc; assumption).
  assert (Ln : lookup (t_id t) s = None) by (apply lookup_none_ids; assumption).
  unfold model_diff. rewrite dedup_app by assumption.
  rewrite (filter_nil_all (fun x => negb (smem x (ids_of (s ++ [t]))))), app_nil_l.
  2:{ intros x Hx. assert (M : smem x (ids_of (s ++ [t])) = true)
        by (apply smem_In; rewrite ids_app; apply in_or_app; auto).
      rewrite M. reflexivity. }
  rewrite ids_app, filter_app.
  rewrite (filter_nil_all (changed s (s ++ [t])) (ids_of s)), app_nil_l.
  2:{ intros x Hx. unfold changed. rewrite lookup_app.
      destruct (lookup x s) as [u|] eqn:L; [|apply lookup_none_ids in L; contradiction].
      cbn. rewrite task_eqb_refl. reflexivity. }
  assert (Lt : lookup (t_id t) (s ++ [t]) = Some t) by (rewrite lookup_app, Ln, String.eqb_refl; reflexivity).
  cbn [filter]. unfold changed. rewrite Lt, Ln. cbn [otask_eqb negb map].
  rewrite apply_diff_cons, Lt, Ln. reflexivity.
Qed.

(* shape 3: tasks are dropped, the others untouched *)
Lemma apply_diff_removed (s' : repo) : forall (R : list string) (s : repo),
  (forall id, In id R -> lookup id s' = None) ->
  apply_diff s (diff_of s' R) = filter (fun t => negb (smem (t_id t) R)) s.
Proof.
  induction R as [|id R IH]; intros s H; cbn [map].
  - rewrite apply_diff_nil. symmetry. apply filter_all_true. reflexivity.
  - rewrite apply_diff_cons, (H id) by (left; reflexivity).
    rewrite IH by (intros id' Hin; apply H; right; exact Hin).
    unfold remove_id. rewrite filter_filter. apply filter_ext. intros t.
    unfold smem; cbn [existsb]. rewrite negb_orb. reflexivity.
Qed.

Lemma apply_model_diff_filter (f : task -> bool) (s : repo) : NoDup (ids_of s) ->
  apply_diff s (diff_of (filter f s) (model_diff s (filter f s))) = filter f s.
Proof.
  intros N. set (s' := filter f s).
  assert (N' : NoDup (ids_of s')) by (apply ids_filter_nodup; exact N).
  unfold model_diff. rewrite dedup_app by assumption. rewrite filter_app.
  set (R := filter (fun x => negb (smem x (ids_of s'))) (ids_of s)).
  assert (HR : forall id, In id R -> In id (ids_of s) /\ ~ In id (ids_of s')).
  { intros id H. apply filter_In in H. destruct H as [H1 H2]. split; [exact H1|].
    apply smem_false. apply negb_true_iff. exact H2. }
  rewrite (filter_nil_all (changed s s') (ids_of s')), app_nil_r.
  2:{ intros id Hin. unfold changed.
      destruct (lookup id s') as [t|] eqn:L'; [|apply lookup_none_ids in L'; contradiction].
      unfold s' in L'. rewrite (lookup_filter f id s t N L'). cbn. rewrite task_eqb_refl. reflexivity. }
  rewrite (filter_all_true (changed s s') R).
  2:{ intros id Hin. destruct (HR id Hin) as [H1 H2]. unfold changed.
      rewrite (proj2 (lookup_none_ids id s')) by exact H2.
      destruct (lookup id s) as [t|] eqn:L; [reflexivity | apply lookup_none_ids in L; contradiction]. }
  rewrite apply_diff_removed by (intros id Hin; apply lookup_none_ids; apply (HR id Hin)).
  apply filter_ext_in. intros t Ht.
  destruct (f t) eqn:Ft.
  - apply negb_true_iff, smem_false. intros Hin. apply HR in Hin. destruct Hin as [_ Hn]. apply Hn.
    apply in_ids_of. exists t. split; [|reflexivity]. unfold s'. apply filter_In. split; assumption.
  - apply negb_false_iff, smem_In. unfold R. apply filter_In. split.
    + apply in_ids_of. exists t. split; [exact Ht | reflexivity].
    + apply negb_true_iff, smem_false. intros Hin. apply in_ids_of in Hin. destruct Hin as (t2 & H2 & E2).
      unfold s' in H2. apply filter_In in H2. destruct H2 as [H2 F2].
      pose proof (in_lookup_nodup s t N Ht) as L1. pose proof (in_lookup_nodup s t2 N H2) as L2.
      rewrite E2, L1 in L2. inv L2. congruence.
Qed.

(* ---------- the three shapes cover every operation ---------- *)
Lemma step_shape (c : cfg) (s : repo) (o : op) : op_ok s o -> (forall kv, o <> OLoad kv) ->
  ids_of (fst (step c s o)) = ids_of s
  \/ (exists t, fst (step c s o) = (s ++ [t])%list /\ ~ In (t_id t) (ids_of s))
  \/ (exists f, fst (step c s o) = filter f s).
Proof.
  intros Hok NL.
  assert (Hg : forall t want ek upd, ids_of (fst (guarded t want ek s upd)) = ids_of s).
  { intros t want ek upd. unfold guarded. destruct (negb _); [destruct (ek t); reflexivity|].
    cbn [fst]. apply ids_replace. auto. }
  destruct o; cbn [step].
  - set (t := to_task (norm_uparam p) fresh now).
    assert (Hadd : exists t0, (s ++ [t])%list = (s ++ [t0])%list /\ ~ In (t_id t0) (ids_of s))
      by (exists t; split; [reflexivity | exact Hok]).
    destruct (c_add_valid_first c); destruct (negb (is_valid t)); destruct ctx; cbn [fst]; auto.
  - destruct ctx; cbn [fst]; auto. destruct (lookup id s); auto.
  - destruct (c_upd_valid_first c && invalid_update p); cbn [fst]; auto. destruct ctx; cbn [fst]; auto.
    destruct (lookup id s) as [t|]; cbn [fst]; auto.
    destruct (negb (state_eqb _ _)); [destruct (err_kind_update t); auto|].
    destruct (negb (is_valid _)); cbn [fst]; auto. left. apply ids_replace. auto.
  - destruct ctx; cbn [fst]; auto. destruct (lookup id s); cbn [fst]; auto.
  - destruct ctx; cbn [fst]; auto. destruct (lookup id s); cbn [fst]; auto.
  - destruct ctx; cbn [fst]; auto. destruct (lookup id s); cbn [fst]; auto.
  - destruct (c_find_ctx c && ctx); auto.
  - destruct (c_next_ctx c && ctx); auto. destruct (get_next s); auto.
  - left. cbn [fst]. apply ids_map_same. apply undispatch_id.
  - left. cbn [fst]. apply ids_map_same. apply cancel_if_dispatched_id.
  - right; right. eexists. reflexivity.
  - exfalso. eapply NL. reflexivity.
Qed.

Lemma model_obs_eta (c : cfg) (s : repo) (o : op) :
  model_obs c s o =
  mkObs (snd (step c s o))
        (diff_of (fst (step c s o)) (model_diff s (fst (step c s o))))
        (omap t_id (get_next (fst (step c s o)))).
Proof. unfold model_obs. destruct (step c s o) as [s' r]. reflexivity. Qed.

(* the reconstructed state IS the specification's next state *)
Theorem obs_next_model (c : cfg) (s : repo) (o : op) : wf_repo s -> op_ok s o ->
  obs_next s o (model_obs c s o) = fst (step c s o).
Proof.
  intros [N F] Hok. rewrite model_obs_eta.
  assert (G : (forall kv, o <> OLoad kv) ->
              apply_diff s (diff_of (fst (step c s o)) (model_diff s (fst (step c s o)))) = fst (step c s o)).
  { intros NL. destruct (step_shape c s o Hok NL) as [I | [(t & E & Hf) | (f & E)]].
    - apply apply_model_diff_same_ids; assumption.
    - rewrite E. apply apply_model_diff_app; assumption.
    - rewrite E. apply apply_model_diff_filter; assumption. }
  destruct o; unfold obs_next; cbn [o_res o_diff]; try (apply G; discriminate).
  cbn [step]. destruct (forallb is_valid kv); reflexivity.
Qed.

(* ---------- C02 ---------- *)
(* what GetNext of the specification reports is acceptable to next_ok, whatever the configuration *)
Lemma next_ok_model (c : cfg) (s : repo) : NoDup (ids_of s) -> next_ok c s (omap t_id (get_next s)) = true.
Proof.
  intros N. unfold next_ok. destruct (get_next s) as [t|] eqn:G; cbn [omap].
  - destruct (get_next_min s t G) as (Hin & Hs & Hmin).
    rewrite (in_lookup_nodup s t N Hin). unfold is_min3. rewrite Hs. cbn [andb].
    assert (Hall : forallb (fun u => negb (is_sched u && key_lt3 u t)) s = true).
    { apply forallb_forall. intros u Hu. destruct (is_sched u) eqn:Su; cbn [andb negb]; [|reflexivity].
      rewrite (Hmin u Hu Su). reflexivity. }
    rewrite Hall. cbn [andb]. destruct (c_tie_free c); [reflexivity | apply String.eqb_refl].
  - rewrite get_next_existsb, G. reflexivity.
Qed.

Theorem model_obs_C02 (c : cfg) (s : repo) (o : op) :
  wf_repo s -> op_ok s o -> p_C02 c s o (model_obs c s o) = true.
Proof.
  intros W Hok. unfold p_C02. cbv zeta. rewrite (obs_next_model c s o W Hok).
  rewrite model_obs_eta. cbn [o_next o_res].
  rewrite next_ok_model by (apply (step_wf c s o W Hok)). cbn [andb].
  destruct W as [N F].
  destruct o; try reflexivity.
  cbn [step]. destruct (c_next_ctx c && ctx) eqn:E; cbn [snd].
  - apply andb_true_iff in E. destruct E as [_ ->]. reflexivity.
  - pose proof (next_ok_model c s N) as NO.
    destruct (get_next s) as [t|] eqn:G; cbn [snd omap] in *.
    + rewrite NO, andb_true_r. apply otask_eqb_eq.
      destruct (get_next_min s t G) as (Hin & _ & _). apply in_lookup_nodup; assumption.
    + rewrite get_next_existsb, G. reflexivity.
Qed.
Corollary model_obs_C02_inmem (s : repo) (o : op) :
  wf_repo s -> op_ok s o -> p_C02 cfg_inmem s o (model_obs cfg_inmem s o) = true.
Proof. apply model_obs_C02. Qed.
Corollary model_obs_C02_ent (s : repo) (o : op) :
  wf_repo s -> op_ok s o -> p_C02 cfg_ent s o (model_obs cfg_ent s o) = true.
Proof. apply model_obs_C02. Qed.

(* ---------- C13 ---------- *)
Theorem model_obs_C13 (c : cfg) (s : repo) (o : op) :
  wf_repo s -> op_ok s o -> p_C13 c s o (model_obs c s o) = true.
Proof.
  intros W Hok. unfold p_C13. cbv zeta. rewrite (obs_next_model c s o W Hok).
  rewrite model_obs_eta. cbn [o_res].
  destruct o; try reflexivity; cbn [step fst snd res_eqb andb]; apply tasks_eqb_refl.
Qed.

(* ---------- load ---------- *)
Theorem model_obs_load_gen (c : cfg) (s : repo) (o : op) : p_load c s o (model_obs c s o) = true.
Proof.
  unfold p_load. destruct o; try reflexivity.
  rewrite model_obs_eta. cbn [o_res o_diff step].
  destruct (forallb is_valid kv); cbn [fst snd]; [reflexivity|].
  rewrite model_diff_same. reflexivity.
Qed.
Theorem model_obs_load (c : cfg) (s : repo) (o : op) :
  wf_repo s -> op_ok s o -> p_load c s o (model_obs c s o) = true.
Proof. intros _ _. apply model_obs_load_gen. Qed.

(* ---------- C19 ---------- *)
Theorem model_obs_C19 (c : cfg) (s : repo) (o : op) :
  wf_repo s -> op_ok s o -> Forall unmarked s -> op_unmarked o ->
  p_C19 c s o (model_obs c s o) = true.
Proof.
  intros _ _ Fu Ou. destruct (step_unmarked c s o Fu Ou) as [Fs Fr].
  unfold p_C19. rewrite model_obs_eta. cbn [o_res o_diff].
  rewrite Forall_forall in Fs, Fr. apply andb_true_iff. split.
  - apply negb_true_iff. destruct (existsb marked_task (res_tasks (snd (step c s o)))) eqn:X; [|reflexivity].
    apply existsb_exists in X. destruct X as (t & Hin & M). rewrite (Fr t Hin) in M. discriminate.
  - apply forallb_forall. intros [id ot] Hin. apply in_map_iff in Hin. destruct Hin as (id' & E & _).
    inv E. cbn [snd]. destruct (lookup id (fst (step c s o))) as [t|] eqn:L; [|reflexivity].
    apply lookup_in in L. rewrite (Fs t L). reflexivity.
Qed.

(* the two extra hypotheses are needed: a marked task that is already stored is handed out as it is *)
Theorem model_obs_C19_unrestricted_refuted :
  exists (c : cfg) (s : repo) (o : op),
    wf_repo s /\ op_ok s o /\ op_unmarked o /\ p_C19 c s o (model_obs c s o) = false.
Proof.
  pose (t := mkTask "t1" "w" 0 Scheduled "" [("scribble", "x")] [] (T 60000000000 true) (T 1000000 true)
                    None None None None).
  exists cfg_inmem, [t], (OGet false "t1").
  split; [split; [repeat constructor; cbn; tauto | repeat constructor] |].
  split; [exact I | split; [exact I | vm_compute; reflexivity]].
Qed.

(* ---------- C11 ---------- *)
Lemma doc_cfg_id (c : cfg) : c_like_ci c = false -> c_norm_deadline c = true -> doc_cfg c = c.
Proof. destruct c; cbn; intros -> ->; reflexivity. Qed.

Lemma find_loop_match (m : task -> bool) (l : list task) : forall (off lim : Z) (t : task),
  In t (find_loop_gen m l off lim) -> m t = true.
Proof.
  induction l as [|x l IH]; cbn; intros off lim t H; [tauto|].
  destruct (m x) eqn:Mx; [|eauto].
  destruct (negb (off =? 0)); [eauto|]. destruct (lim =? 0); [cbn in H; tauto|].
  cbn in H. destruct H as [<-|H]; eauto.
Qed.
Lemma find_loop_nodup (m : task -> bool) (l : list task) : forall (off lim : Z),
  NoDup (ids_of l) -> NoDup (ids_of (find_loop_gen m l off lim)).
Proof.
  induction l as [|x l IH]; cbn; intros off lim N; [constructor|]. inv N.
  destruct (m x); [|auto].
  destruct (negb (off =? 0)); [auto|]. destruct (lim =? 0); [constructor|].
  cbn. constructor; [|auto].
  intros Hin. apply in_ids_of in Hin. destruct Hin as (t & Ht & E).
  apply find_loop_in in Ht. apply H1. apply in_ids_of. eauto.
Qed.
Lemma sort_created_nodup (s : repo) : NoDup (ids_of s) -> NoDup (ids_of (sort_created s)).
Proof.
  rewrite !ids_of_map. apply Permutation_NoDup. apply Permutation_map. apply sort_created_perm.
Qed.

Definition nodup_go : list string -> list task -> bool :=
  fix go (seen : list string) (l : list task) : bool :=
    match l with
    | [] => true
    | t :: r => negb (existsb (String.eqb (t_id t)) seen) && go (t_id t :: seen) r
    end.
Lemma nodup_go_true (l : list task) : forall seen : list string,
  NoDup (ids_of l) -> (forall x, In x seen -> ~ In x (ids_of l)) -> nodup_go seen l = true.
Proof.
  induction l as [|t l IH]; intros seen N D; cbn; [reflexivity|]. cbn in N. inv N.
  apply andb_true_iff. split.
  - apply negb_true_iff. change (smem (t_id t) seen = false). apply smem_false.
    intros Hin. apply (D _ Hin). cbn. auto.
  - apply IH; [assumption|]. intros x [<-|Hx]; [assumption|].
    intros Hin. apply (D x Hx). cbn. auto.
Qed.
Lemma ids_nodup_true (l : list task) : NoDup (ids_of l) -> ids_nodup l = true.
Proof. intros N. change (nodup_go [] l = true). apply nodup_go_true; [exact N | intros x []]. Qed.

Lemma combine_created_refl (l : list task) :
  forallb (fun p => t_equal (t_created (fst p)) (t_created (snd p))) (combine l l) = true.
Proof.
  induction l as [|x l IH]; cbn; [reflexivity|]. unfold t_equal at 1. rewrite Z.eqb_refl. exact IH.
Qed.

(* Find's own answer is accepted by the tie-tolerant comparison used for ent *)
Lemma find_accept_ent_refl (c : cfg) (s : repo) (q : query) (off lim : Z) :
  NoDup (ids_of s) -> c_find_by_created c = true ->
  find_accept_ent c s q (find c s q off lim) (find c s q off lim) = true.
Proof.
  intros N B. unfold find_accept_ent.
  rewrite Nat.eqb_refl, combine_created_refl. cbn [andb].
  apply andb_true_iff. split.
  - apply forallb_forall. intros t Ht. unfold find in Ht. rewrite B in Ht.
    rewrite (find_loop_match _ _ _ _ _ Ht), andb_true_r.
    apply find_loop_in, sort_created_in in Ht. apply otask_eqb_eq. apply in_lookup_nodup; assumption.
  - apply ids_nodup_true. unfold find. rewrite B. apply find_loop_nodup, sort_created_nodup. exact N.
Qed.

Theorem model_obs_C11 (c : cfg) (s : repo) (o : op) :
  c_like_ci c = false -> c_norm_deadline c = true ->
  wf_repo s -> op_ok s o -> p_C11 c s o (model_obs c s o) = true.
Proof.
  intros Hci Hnd [N F] Hok. unfold p_C11. rewrite model_obs_eta. cbn [o_res].
  destruct o; try reflexivity.
  cbn [step]. destruct (c_find_ctx c && ctx) eqn:E; cbn [snd].
  - apply andb_true_iff in E. destruct E as [_ ->]. reflexivity.
  - cbv zeta. rewrite (doc_cfg_id c Hci Hnd).
    destruct (c_find_by_created c) eqn:B.
    + apply find_accept_ent_refl; assumption.
    + apply tasks_eqb_refl.
Qed.
Corollary model_obs_C11_inmem (s : repo) (o : op) :
  wf_repo s -> op_ok s o -> p_C11 cfg_inmem s o (model_obs cfg_inmem s o) = true.
Proof. apply model_obs_C11; reflexivity. Qed.

(* F4: the faithful model of ent (case-insensitive LIKE) does not meet the documented rule *)
Definition c11_task : task :=
  mkTask "t1" "w" 0 Scheduled "" [("k", "Hello")] [] (T 60000000000 true) (T 1000000 true)
         (Some (T 0 true)) None None None.
Definition c11_query_ci : query :=
  mkQ None None None None None (Some [MM "k" "hell" "Forward"]) None None None None None None None.
(* a deadline operand that is not a whole millisecond: the documented rule truncates it first *)
Definition c11_query_dl : query :=
  mkQ None None None None None None None None None (Some (Some (TM "Equal" (T 1 true)))) None None None.
Lemma c11_repo_wf : wf_repo [c11_task].
Proof. split; [repeat constructor; cbn; tauto | repeat constructor]. Qed.

Theorem model_obs_C11_ent_refuted :
  exists (s : repo) (o : op), wf_repo s /\ op_ok s o /\ p_C11 cfg_ent s o (model_obs cfg_ent s o) = false.
Proof.
  exists [c11_task], (OFind false c11_query_ci 0 (-1)).
  split; [exact c11_repo_wf | split; [exact I | vm_compute; reflexivity]].
Qed.

(* each hypothesis of model_obs_C11 is necessary, for every configuration *)
Theorem model_obs_C11_like_ci_refuted (c : cfg) : c_like_ci c = true ->
  exists (s : repo) (o : op), wf_repo s /\ op_ok s o /\ p_C11 c s o (model_obs c s o) = false.
Proof.
  intros H. exists [c11_task], (OFind false c11_query_ci 0 (-1)).
  split; [exact c11_repo_wf | split; [exact I |]].
  destruct c as [b1 b2 b3 b4 b5 b6 b7 b8]. cbn in H. subst b8.
  destruct b1, b2, b3, b4, b5, b6, b7; vm_compute; reflexivity.
Qed.
Theorem model_obs_C11_no_norm_deadline_refuted (c : cfg) : c_norm_deadline c = false ->
  exists (s : repo) (o : op), wf_repo s /\ op_ok s o /\ p_C11 c s o (model_obs c s o) = false.
Proof.
  intros H. exists [c11_task], (OFind false c11_query_dl 0 (-1)).
  split; [exact c11_repo_wf | split; [exact I |]].
  destruct c as [b1 b2 b3 b4 b5 b6 b7 b8]. cbn in H. subst b7.
  destruct b1, b2, b3, b4, b5, b6, b8; vm_compute; reflexivity.
Qed.

(* so: p_C11 holds of every model observation exactly for the configurations that match the documented rule *)
Theorem model_obs_C11_iff (c : cfg) :
  (forall s o, wf_repo s -> op_ok s o -> p_C11 c s o (model_obs c s o) = true)
  <-> (c_like_ci c = false /\ c_norm_deadline c = true).
Proof.
  split.
  - intros H. split.
    + destruct (c_like_ci c) eqn:E; [|reflexivity].
      destruct (model_obs_C11_like_ci_refuted c E) as (s & o & W & Hok & X).
      rewrite (H s o W Hok) in X. discriminate.
    + destruct (c_norm_deadline c) eqn:E; [reflexivity|].
      destruct (model_obs_C11_no_norm_deadline_refuted c E) as (s & o & W & Hok & X).
      rewrite (H s o W Hok) in X. discriminate.
  - intros [H1 H2] s o. apply model_obs_C11; assumption.
Qed.

Print Assumptions obs_next_model.
Print Assumptions model_obs_C02.
Print Assumptions model_obs_C02_inmem.
Print Assumptions model_obs_C02_ent.
Print Assumptions model_obs_C13.
Print Assumptions model_obs_load.
Print Assumptions model_obs_C19.
Print Assumptions model_obs_C19_unrestricted_refuted.
Print Assumptions model_obs_C11.
Print Assumptions model_obs_C11_inmem.
Print Assumptions model_obs_C11_ent_refuted.
Print Assumptions model_obs_C11_iff.
