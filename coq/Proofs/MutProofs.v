(* Proofs/MutProofs.v — schedule mutators (C18). *)
From GK Require Import Mutator.
From GK.Proofs Require Import BaseLemmas.
From Coq Require Import ZifyBool.
Ltac Zify.zify_post_hook ::= Z.div_mod_to_equations.

(* the offset RandomizeScheduledAt.Mutate applies for a draw rv of rand.Int(reader, |Max - Min|)
   (no draw when the window is empty) *)
Definition offset_of (r : rsa) (rv : Z) : Z :=
  let d := r_max r - r_min r in
  if d =? 0 then r_min r else if d <? 0 then r_min r - rv else r_min r + rv.

Theorem offset_in_window r rv : 0 <= rv < Z.abs (r_max r - r_min r) \/ r_max r = r_min r ->
  in_window r (offset_of r rv) = true.
Proof.
  unfold in_window, offset_of. intros H.
  destruct (Z.eqb_spec (r_max r - r_min r) 0); destruct (Z.eqb_spec (r_min r) (r_max r)); try lia.
  destruct (Z.ltb_spec (r_max r - r_min r) 0); destruct (Z.ltb_spec (r_min r) (r_max r)); lia.
Qed.

Theorem window_bounds r off : in_window r off = true ->
  Z.min (r_min r) (r_max r) <= off <= Z.max (r_min r) (r_max r)
  /\ (off = r_max r -> r_min r = r_max r).
Proof.
  unfold in_window. destruct (Z.eqb_spec (r_min r) (r_max r)); [lia|].
  destruct (Z.ltb_spec (r_min r) (r_max r)); lia.
Qed.

Lemma norm_mono a b : inst a <= inst b -> inst (norm a) <= inst (norm b).
Proof. unfold norm, ms; cbn. lia. Qed.

(* after ToTask (which normalizes) the time stays within the normalized window *)
Theorem window_after_norm r base off : in_window r off = true ->
  inst (norm (t_add base (Z.min (r_min r) (r_max r)))) <= inst (norm (t_add base off))
  <= inst (norm (t_add base (Z.max (r_min r) (r_max r)))).
Proof.
  intros H. apply window_bounds in H. destruct H as [H _].
  split; apply norm_mono; unfold t_add; cbn; lia.
Qed.

(* with whole-millisecond base and bounds the normalized result is base + an offset within the window *)
Theorem window_ms_exact r base off : in_window r off = true ->
  inst base mod ms = 0 -> r_min r mod ms = 0 -> r_max r mod ms = 0 ->
  exists off', inst (norm (t_add base off)) = inst base + off'
               /\ Z.min (r_min r) (r_max r) <= off' <= Z.max (r_min r) (r_max r).
Proof.
  intros H Hb Hmin Hmax. apply window_bounds in H. destruct H as [H _].
  exists (off - off mod ms). unfold norm, t_add, ms in *; cbn. split; lia.
Qed.

(* schedule-at-now yields the (normalized) current time *)
Theorem mutate_now now off p : u_sched (mutate MNow now off p) = Some (norm now).
Proof. reflexivity. Qed.

(* decoding is total; an error exactly for a malformed duration *)
Theorem parse_dur_err s o : parse_dur s o = None <-> s <> "" /\ po_dur o = None /\ po_int o = None.
Proof.
  unfold parse_dur. destruct (String.eqb_spec s "") as [E|E].
  - split; [discriminate | intros (H & _); contradiction].
  - destruct (po_dur o) as [d|].
    + split; [discriminate | intros (_ & H & _); discriminate].
    + destruct (po_int o) as [i|].
      * split; [discriminate | intros (_ & _ & H); discriminate].
      * split; auto.
Qed.

(* mutation never touches anything but the scheduled time (and, for schedule-at-now, normalizes) *)
Theorem mutate_rand_only_sched r now off p :
  let p' := mutate (MRand r) now off p in
  u_work p' = u_work p /\ u_prio p' = u_prio p /\ u_param p' = u_param p /\ u_meta p' = u_meta p
  /\ u_deadline p' = u_deadline p.
Proof. cbn. tauto. Qed.

(* ParamMutatingRepository.AddTask stores exactly the mutated parameters *)
Theorem mutating_add_stores_mutated c s now fresh p omax omin off l t :
  load_mutators (match u_meta p with Some m => m | None => [] end) omax omin = Some l ->
  snd (mutating_add c s false now fresh p omax omin off) = RTask t ->
  t = to_task (norm_uparam (apply_mutators l now off p)) fresh now
  /\ fst (mutating_add c s false now fresh p omax omin off) = s ++ [t].
Proof.
  intros L H. unfold mutating_add in *. rewrite L in *. cbn [step] in *.
  set (t1 := to_task (norm_uparam (apply_mutators l now off p)) fresh now) in *.
  destruct (c_add_valid_first c); destruct (negb (is_valid t1)); cbn in *; inv H; auto.
Qed.
