(* Props/C09.v — Dispatch result protocol; cancellation and deadline reach the work function.
   exec (Disp.v) is Dispatch + executor.Exec as a total function of the environment's choices
   (fetch outcome, registry, deadline, cancellation instant, work behaviour with arbitrary error text). *)
From GK Require Import Disp.
From GK.Proofs Require Import DispProofs.

(* every meaningful scenario satisfies the whole property predicate *)
Theorem C09_protocol : forall i, di_wf i = true -> p_C09 i (exec true i) = true.
Proof. exact exec_satisfies_C09. Qed.
Print Assumptions C09_protocol.

(* a successful dispatch delivers exactly one result and then closes the channel *)
Theorem C09_one_result_then_close : forall i, do_err (exec true i) = None ->
  do_closed (exec true i) = true /\ exists v, do_results (exec true i) = [v].
Proof. exact exec_one_result_then_close. Qed.
Print Assumptions C09_one_result_then_close.

(* which result: work-id-not-found / cancelled before the work began / the return value / panic error *)
Theorem C09_result_value : forall i, di_wf i = true -> do_err (exec true i) = None ->
  do_results (exec true i) =
  [ if negb (di_registered i) then RVNotFound
    else match di_cancel i with
         | CancelInFetch => RVCanceled
         | _ => match di_work i with
                | WReturn None => RVNil
                | WReturn (Some e) => RVErr e
                | WPanic => RVPanic
                | WBlock => match di_deadline i with DlPast => RVDeadline | _ => RVCanceled end
                end
         end ].
Proof. exact exec_result_value. Qed.
Print Assumptions C09_result_value.

(* a failed dispatch (fetch error, or cancelled before a worker took it) never invokes the work function *)
Theorem C09_failed_dispatch_never_runs : forall pr i, do_err (exec pr i) <> None ->
  do_ran (exec pr i) = false /\ do_results (exec pr i) = [].
Proof. exact exec_failed_never_runs. Qed.
Print Assumptions C09_failed_dispatch_never_runs.

(* the executor of the pinned source (no recover) violates the property: the defect that was repaired *)
Theorem C09_pinned_refuted : exists i, di_wf i = true /\ p_C09 i (exec false i) = false.
Proof. exact exec_pinned_refuted. Qed.
Print Assumptions C09_pinned_refuted.
