(* Props/C20.v — Transient faults never cause early, double or lost execution. *)
From GK Require Import SysCheck.
From GK.Proofs Require Import SysSmall.

(* the two fault kinds of the model *)
Theorem C20_fault_before_no_effect : forall h run, faulty FBefore h run = (h, RErr EOther).
Proof. exact fault_before_no_effect. Qed.
Print Assumptions C20_fault_before_no_effect.
Theorem C20_fault_after_has_effect : forall h run, faulty FAfter h run = (fst (run h), RErr EOther).
Proof. exact fault_after_has_effect. Qed.
Print Assumptions C20_fault_after_has_effect.

(* ---- with faults at every scheduler-issued call (Proofs/SysProofs.v): the invariants of C04 / C06 are
   proved for EVERY accepted trace, fault labels included ---- *)
From GK.Proofs Require Import SysProofs.
From GK.Proofs Require RestProofs RestProofs2 LiveProofs C20Proofs.

Theorem C20_no_double_or_cancelled_run_under_faults : forall tr s,
  srun sys_init tr = Some s -> srun_ok sys_init tr -> c04_ok tr = true.
Proof. exact c04_holds. Qed.
Print Assumptions C20_no_double_or_cancelled_run_under_faults.

Theorem C20_invariant_under_faults : forall s, reachable s -> SysInv s.
Proof. exact reachable_inv. Qed.
Print Assumptions C20_invariant_under_faults.

(* what a driver that does NOT retry loses: mark-as-dispatched fails after taking effect, the driver calls Step
   instead of Retry — the task stays dispatched and is never run. The property's premise (errors are retried)
   is necessary. *)
Theorem C20_retry_is_necessary :
  match srun sys_init cex_lost_task with
  | Some s => (map (fun t => (t_id t, t_state t)) (repo_of s), sy_pc s, sy_accepted s, sy_running s,
               sy_results s, sy_starts s, hs_timer (sy_h s))
  | None => ([], PIdle, [], [], [], [], timer_idle)
  end = ([("a", Dispatched)], PSelect, [], [], [], [], timer_idle).
Proof. exact lost_task_after_fault. Qed.
Print Assumptions C20_retry_is_necessary.

(* "Once the faults stop, a driver that retries failed steps brings every due task to a recorded outcome": after ANY
   accepted trace - with whatever faults - every fault-free schedule of the driver and the workers is bounded and ends
   at rest (Proofs/LiveProofs.v), where nothing due is left scheduled and (Props/C06.v) every finished run is recorded
   and reported once *)
Theorem C20_recovery_terminates : forall tr s q s',
  SysProofs.srun sys_init tr = Some s -> SysProofs.srun_ok sys_init tr ->
  Forall LiveProofs.driver_label q -> SysProofs.srun s q = Some s' ->
  (List.length q + LiveProofs.mu s' <= LiveProofs.mu s)%nat
  /\ (LiveProofs.at_rest s' \/ exists l s'', LiveProofs.driver_label l /\ SysProofs.sstepf s' l = Some s'' /\ RestProofs.disc s' l).
Proof. exact LiveProofs.C05_every_schedule_terminates. Qed.
Print Assumptions C20_recovery_terminates.

(* the whole predicate the C20 check evaluates (no early / double / cancelled run, nothing due left scheduled, every
   finished run recorded and reported once, nothing stranded in dispatched state without a run) holds of EVERY accepted
   trace that ends at rest, with faults of every kind at the scheduler's calls, under the driver discipline the property
   presupposes and outside the recorded finding F9b (Proofs/C20Proofs.v) *)
Theorem C20_predicate_holds_at_rest : forall tr dump now s,
  let tr' := (tr ++ [LDump dump now true])%list in
  srun sys_init tr' = Some s -> srun_ok sys_init tr' ->
  RestProofs.timer_started_first tr' = true -> RestProofs.no_user_hook_fault tr' = true ->
  RestProofs.trace_disciplined tr' = true -> RestProofs2.taskdone_err_retried false tr' = true ->
  postponed_in_window tr' None [] = [] -> no_postpone_retry None tr' ->
  tm_pending (hs_timer (sy_h s)) = false -> sy_results s = [] -> sy_accepted s = [] -> sy_running s = [] ->
  c20_ok tr' = true.
Proof. exact C20Proofs.C20_predicate_at_rest. Qed.
Print Assumptions C20_predicate_holds_at_rest.

(* recovery: from any reachable state meeting the trace hypotheses, a fault-free continuation of at most [mu s] driver
   and worker labels reaches rest, and the trace with the final dump satisfies the whole predicate *)
Theorem C20_recovery : forall tr s,
  srun sys_init tr = Some s -> srun_ok sys_init tr ->
  RestProofs.timer_started_first tr = true -> RestProofs.no_user_hook_fault tr = true ->
  RestProofs.trace_disciplined tr = true -> RestProofs2.taskdone_err_retried false tr = true ->
  postponed_in_window tr None [] = [] -> no_postpone_retry None tr ->
  exists q s', Forall LiveProofs.driver_label q /\ srun s q = Some s' /\ LiveProofs.at_rest s'
    /\ (List.length q <= LiveProofs.mu s)%nat
    /\ let tr'' := (tr ++ q ++ [LDump (repo_of s') (sy_now s') true])%list in
       srun sys_init tr'' = Some s' /\ srun_ok sys_init tr'' /\ c20_ok tr'' = true.
Proof. exact C20Proofs.C20_liveness. Qed.
Print Assumptions C20_recovery.

(* the retry discipline is needed: a driver that answers DispatchErr with Step strands the task dispatched without a run *)
Definition C20_retry_hypotheses_needed := C20Proofs.C20_retry_hypotheses_needed.
