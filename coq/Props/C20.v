(* Props/C20.v — Transient faults never cause early, double or lost execution. *)
From GK Require Import SysCheck.
From GK.Proofs Require Import SysSmall.

(* the two fault kinds of the model *)
Theorem C20_fault_before_no_effect : forall h run, faulty FBefore h run = (h, RErr EOther).
Proof. exact fault_before_no_effect. Qed.
Print Assumptions C20_fault_before_no_effect.
Theorem C20_fault_after_has_effect : forall h run, faulty FAfter h run = (fst (run h), RErr EOther).
Proof. exact fault_after_has_effect. Qed.
Print Assumptions C20_fault_after_has_effect.
