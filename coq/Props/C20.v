(* Props/C20.v — Transient faults never cause early, double or lost execution. *)
From GK Require Import SysCheck.
From GK.Proofs Require Import SysSmall.

(* the two fault kinds of the model *)
Theorem C20_fault_before_no_effect : forall h run, faulty FBefore h run = (h, RErr EOther).
Proof. exact fault_before_no_effect. Qed.
Print Assumptions C20_fault_before_no_effect.
Theorem C20_fault_after_has_effect : forall h run, faulty FAfter h run = (fst (run h), RErr EOther).
Proof. exact fault_after_has_effect. Qed.
Print Assumptions C20_fault_after_has_effect.

(* ---- with faults at every scheduler-issued call (Proofs/SysProofs.v): the invariants of C04 / C06 are
   proved for EVERY accepted trace, fault labels included ---- *)
From GK.Proofs Require Import SysProofs.
From GK.Proofs Require RestProofs LiveProofs.

Theorem C20_no_double_or_cancelled_run_under_faults : forall tr s,
  srun sys_init tr = Some s -> srun_ok sys_init tr -> c04_ok tr = true.
Proof. exact c04_holds. Qed.
Print Assumptions C20_no_double_or_cancelled_run_under_faults.

Theorem C20_invariant_under_faults : forall s, reachable s -> SysInv s.
Proof. exact reachable_inv. Qed.
Print Assumptions C20_invariant_under_faults.

(* what a driver that does NOT retry loses: mark-as-dispatched fails after taking effect, the driver calls Step
   instead of Retry — the task stays dispatched and is never run. The property's premise (errors are retried)
   is necessary. *)
Theorem C20_retry_is_necessary :
  match srun sys_init cex_lost_task with
  | Some s => (map (fun t => (t_id t, t_state t)) (repo_of s), sy_pc s, sy_accepted s, sy_running s,
               sy_results s, sy_starts s, hs_timer (sy_h s))
  | None => ([], PIdle, [], [], [], [], timer_idle)
  end = ([("a", Dispatched)], PSelect, [], [], [], [], timer_idle).
Proof. exact lost_task_after_fault. Qed.
Print Assumptions C20_retry_is_necessary.

(* "Once the faults stop, a driver that retries failed steps brings every due task to a recorded outcome": after ANY
   accepted trace - with whatever faults - every fault-free schedule of the driver and the workers is bounded and ends
   at rest (Proofs/LiveProofs.v), where nothing due is left scheduled and (Props/C06.v) every finished run is recorded
   and reported once *)
Theorem C20_recovery_terminates : forall tr s q s',
  SysProofs.srun sys_init tr = Some s -> SysProofs.srun_ok sys_init tr ->
  Forall LiveProofs.driver_label q -> SysProofs.srun s q = Some s' ->
  (List.length q + LiveProofs.mu s' <= LiveProofs.mu s)%nat
  /\ (LiveProofs.at_rest s' \/ exists l s'', LiveProofs.driver_label l /\ SysProofs.sstepf s' l = Some s'' /\ RestProofs.disc s' l).
Proof. exact LiveProofs.C05_every_schedule_terminates. Qed.
Print Assumptions C20_recovery_terminates.
