(* Props/C17.v — Cron store timer follows the head and honours start/stop.
   Timer model: Timer.v (the virtual clock the harness injects; time.Timer semantics). *)
From GK Require Import Cron.
From GK.Proofs Require Import CronProofs.

(* Inv17: never armed-and-pending at once; idle whenever the store is not started *)
Theorem C17_invariant_step : forall nxt c o, Inv17 c -> Inv17 (fst (cstep nxt c o)).
Proof. exact inv17_step. Qed.
Print Assumptions C17_invariant_step.
Theorem C17_invariant_init : Inv17 cron_empty.
Proof. split; [unfold timer_ok; cbn; tauto | reflexivity]. Qed.
Print Assumptions C17_invariant_init.

(* before StartTimer and after StopTimer the timer is idle: it cannot fire, whatever Pop / EditTask /
   time advances follow *)
Theorem C17_silent_when_stopped : forall nxt c o, Inv17 c ->
  cr_started (fst (cstep nxt c o)) = false -> cr_timer (fst (cstep nxt c o)) = timer_idle.
Proof. intros nxt c o H. exact (proj2 (inv17_step nxt c o H)). Qed.
Print Assumptions C17_silent_when_stopped.

(* while started, after every Pop / EditTask / StartTimer the timer is exactly the one armed for the
   head's scheduled time — fired immediately if that time has passed — and idle iff nothing is pending *)
Theorem C17_follows_head : forall nxt c o, Inv17 c ->
  match o with CPop _ | CEdit _ _ _ | CStart _ => True | _ => False end ->
  let c' := fst (cstep nxt c o) in
  cr_started c' = true ->
  (exists now, cr_timer c' = expected_timer c' now
               /\ match o with CPop n | CEdit n _ _ | CStart n => n = now | _ => True end)
  \/ c' = c.
Proof. exact follows_head. Qed.
Print Assumptions C17_follows_head.

(* NextScheduled reports the head's time *)
Theorem C17_next_scheduled : forall c,
  next_scheduled c = omap (fun h => t_sched (pt_task h)) (pt_min None (cr_pending c)).
Proof. reflexivity. Qed.
Print Assumptions C17_next_scheduled.
