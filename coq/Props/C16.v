(* Props/C16.v — Cron edits are atomic and touch only what was edited.
   Entries are objects with identity (eid) and a cursor in an arena that survives rejected edits. *)
From GK Require Import Cron.
From GK.Proofs Require Import CronProofs.

(* a rejected edit leaves the pending schedule, the entry table and EVERY cursor untouched
   (only the timer is re-armed) *)
Theorem C16_reject_no_effect : forall nxt c now removed added,
  snd (edit nxt c now removed added) = false ->
  let c' := fst (edit nxt c now removed added) in
  cr_arena c' = cr_arena c /\ cr_entries c' = cr_entries c /\ cr_pending c' = cr_pending c
  /\ cr_started c' = cr_started c.
Proof. exact edit_rejected_no_effect. Qed.
Print Assumptions C16_reject_no_effect.
