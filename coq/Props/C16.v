(* Props/C16.v — Cron edits are atomic and touch only what was edited.
   Entries are objects with identity (eid) and a cursor in an arena that survives rejected edits. *)
From GK Require Import Cron.
From GK.Proofs Require Import CronProofs.

(* a rejected edit leaves the pending schedule, the entry table and EVERY cursor untouched
   (only the timer is re-armed) *)
Theorem C16_reject_no_effect : forall nxt c now removed added,
  snd (edit nxt c now removed added) = false ->
  let c' := fst (edit nxt c now removed added) in
  cr_arena c' = cr_arena c /\ cr_entries c' = cr_entries c /\ cr_pending c' = cr_pending c
  /\ cr_started c' = cr_started c.
Proof. exact edit_rejected_no_effect. Qed.
Print Assumptions C16_reject_no_effect.

(* ---- accepted edits (Proofs/CronInv.v) ---- *)
From GK.Proofs Require Import CronInv.

(* an accepted edit: (i) entries that are neither removed nor added keep their pending task, their table row
   and their cursor; (ii) nothing of a removed identity survives unless that identity was added again;
   (iii) every added entry is in the table, its cursor has moved by exactly one occurrence and its pending
   task is made from that FIRST occurrence; (iv) no other cursor moves; and the invariant of C15 still holds *)
Theorem C16_apply_complete : forall nxt c now removed added c',
  Inv15 nxt c -> edit nxt c now removed added = (c', true) ->
  edit_effect nxt c c' removed added /\ Inv15 nxt c'.
Proof. exact edit_accepted. Qed.
Print Assumptions C16_apply_complete.
