(* Props/C11.v — Find returns exactly the matching tasks, oldest first, paged correctly. *)
From GK Require Import PropCheck Findings.
From GK.Proofs Require Import BaseLemmas RepoProofs FindProofs.
From GK.Proofs Require PredProofs RepoProofs2.
From Coq Require Import Sorted Permutation.

(* the string matchers are the documented rules *)
Theorem C11_prefix_rule : forall s p, has_prefix s p = true <-> exists r, s = (p ++ r)%string.
Proof. exact has_prefix_spec. Qed.
Print Assumptions C11_prefix_rule.
Theorem C11_suffix_rule : forall s p, has_suffix s p = true <-> exists r, s = (r ++ p)%string.
Proof. exact has_suffix_spec. Qed.
Print Assumptions C11_suffix_rule.
Theorem C11_substring_rule : forall s p, contains s p = true <-> exists a b, s = (a ++ p ++ b)%string.
Proof. exact contains_spec. Qed.
Print Assumptions C11_substring_rule.

(* offset / limit select a contiguous window of the list of matching tasks (offset >= 0, limit <> 0) *)
Theorem C11_find_window : forall (m : task -> bool) (l : list task) (off lim : Z),
  0 <= off -> lim <> 0 -> find_loop_gen m l off lim = window off lim (filter m l).
Proof. exact find_loop_window. Qed.
Print Assumptions C11_find_window.

(* ent's order: sorted by creation time, a permutation of the contents, ... *)
Theorem C11_sorted_by_created : forall l, Sorted created_le (sort_created l).
Proof. exact sort_created_sorted. Qed.
Print Assumptions C11_sorted_by_created.
Theorem C11_sort_is_permutation : forall l, Permutation l (sort_created l).
Proof. exact sort_created_perm. Qed.
Print Assumptions C11_sort_is_permutation.
(* ... and equal to the insertion order (the in-memory repository's) when the clock is monotone *)
Theorem C11_oldest_first_agree : forall l, Sorted created_le l -> sort_created l = l.
Proof. exact sort_created_sorted_id. Qed.
Print Assumptions C11_oldest_first_agree.

(* both implementations give the same answer under the documented matching rules (monotone clock) *)
Theorem C11_impls_agree_documented : forall (s : repo) (q : query) (off lim : Z),
  Sorted created_le s -> find cfg_inmem s q off lim = find cfg_ent_doc s q off lim.
Proof. intros s q off lim H. unfold find; cbn. rewrite sort_created_sorted_id by exact H. reflexivity. Qed.
Print Assumptions C11_impls_agree_documented.

(* the faithful ent model (SQLite LIKE is ASCII-case-insensitive) does NOT agree: known finding F4 *)
Definition C11_impls_agree_full : Prop := forall (s : repo) (q : query) (off lim : Z),
  Sorted created_le s -> find cfg_inmem s q off lim = find cfg_ent s q off lim.
Theorem C11_impls_agree_refuted : ~ C11_impls_agree_full.
Proof.
  intros H.
  pose (t := mkTask "t1" "w" 0 Scheduled "" [("k", "Hello")] [] (T 60000000000 true) (T 1000000 true) None None None None).
  pose (q := mkQ None None None None None (Some [MM "k" "hell" "Forward"]) None None None None None None None).
  specialize (H [t] q 0 (-1)). assert (S : Sorted created_le [t]) by (repeat constructor).
  specialize (H S). vm_compute in H. discriminate H.
Qed.
Print Assumptions C11_impls_agree_refuted.

(* millisecond precision: the answer depends on a time operand only through its normal form *)
Theorem C11_ms_precision : forall (c : cfg) (s : repo) (q q' : query) (off lim : Z),
  norm_query (c_norm_deadline c) q = norm_query (c_norm_deadline c) q' -> find c s q off lim = find c s q' off lim.
Proof. intros c s q q' off lim H. unfold find. rewrite H. reflexivity. Qed.
Print Assumptions C11_ms_precision.

(* executable form: p_C11 (the documented rule) holds of the model's own observation of every step EXACTLY for the
   configurations whose matchers are case-sensitive and normalize the deadline operand: so it holds of the in-memory
   configuration and is refuted for the faithful ent configuration (F4) *)
Theorem C11_model_satisfies_predicate_iff : forall (c : cfg),
  (forall s o, RepoProofs.wf_repo s -> RepoProofs.op_ok s o -> p_C11 c s o (RepoProofs2.model_obs c s o) = true)
  <-> (c_like_ci c = false /\ c_norm_deadline c = true).
Proof. exact PredProofs.model_obs_C11_iff. Qed.
Print Assumptions C11_model_satisfies_predicate_iff.
Theorem C11_predicate_refuted_for_ent :
  exists s o, RepoProofs.wf_repo s /\ RepoProofs.op_ok s o /\ p_C11 cfg_ent s o (RepoProofs2.model_obs cfg_ent s o) = false.
Proof. exact PredProofs.model_obs_C11_ent_refuted. Qed.
Print Assumptions C11_predicate_refuted_for_ent.
