(* Props/C10.v — Repository operations are atomic under concurrency (linearizable).
   PARTIAL: that sync.Mutex gives mutual exclusion and that one SQLite statement is atomic is the contract of
   the runtime / database; what is proved is that the judge of the recorded concurrent histories is sound:
   whenever it accepts a history there exists a sequential order of the same calls, consistent with real-time
   precedence, that the sequential specification (Repo.step) explains — results and read-back included. *)
From GK Require Import Lin.
From GK.Proofs Require Import LinProofs.
From GK Require Import SrcFacts.
From GK Require PropCheck.
From GK.Proofs Require SrcProofs.

Theorem C10_checker_sound : forall c x, lin_check c x = true ->
  exists s order, seq_run c [] (lc_pre x) = Some s
    /\ linearization c s (lc_calls x ++ post_calls (max_ret (lc_calls x)) (lc_post x)) order.
Proof. exact lin_check_sound. Qed.
Print Assumptions C10_checker_sound.

Theorem C10_search_sound : forall f c s pending,
  lin_search f c s pending = true -> exists order, linearization c s pending order.
Proof. exact lin_search_sound. Qed.
Print Assumptions C10_search_sound.

Theorem C10_uses_every_call_once : forall c s pending order,
  linearization c s pending order -> List.length order = List.length pending.
Proof. exact linearization_length. Qed.
Print Assumptions C10_uses_every_call_once.

Theorem C10_respects_real_time : forall c s pending order,
  linearization c s pending order ->
  forall x rest, order = x :: rest -> forall y, In y pending -> (c_inv x <= c_ret y)%nat.
Proof. exact linearization_respects_real_time. Qed.
Print Assumptions C10_respects_real_time.

(* ---- the mechanisms, re-extracted from the Go source on every run (tools/go2coq -> obligations
   `inmem_discipline_ok inmem_lock_facts = true`, `ent_discipline_ok ent_update_facts = true`, proved by vm_compute on
   the generated facts). What passing those obligations means: *)
Theorem C10_mutators_hold_the_exclusive_lock : forall fs, inmem_discipline_ok fs = true ->
  forall n, In n inmem_mutators ->
  exists f, In f fs /\ lf_name f = n /\ lf_lock f = LExcl /\ lf_deferred f = true
            /\ forall x, In x (lf_pre f) -> ~ In x inmem_shared.
Proof. exact SrcProofs.inmem_discipline_mutators. Qed.
Print Assumptions C10_mutators_hold_the_exclusive_lock.

Theorem C10_readers_hold_the_lock : forall fs, inmem_discipline_ok fs = true ->
  forall n, In n inmem_readers ->
  exists f, In f fs /\ lf_name f = n /\ lf_lock f <> LNone /\ lf_deferred f = true
            /\ forall x, In x (lf_pre f) -> ~ In x inmem_shared.
Proof. exact SrcProofs.inmem_discipline_readers. Qed.
Print Assumptions C10_readers_hold_the_lock.

(* ent: each transition is one UPDATE guarded by the state the specification guards with, installed before anything is
   executed and before the row is read; only the specification's target states are set (all allowed edges) *)
Theorem C10_ent_one_guarded_update_per_transition : forall fs, ent_discipline_ok fs = true ->
  forall n, In n ent_methods ->
  exists f g ys pre, In f fs /\ ef_name f = n /\ spec_edge n = Some (g, ys)
    /\ prefix_to_exec (ef_events f) = Some pre
    /\ ~ In EvRead pre
    /\ guards_of (ef_events f) = [g]
    /\ (forall y, In y (sets_of (ef_events f)) -> In y ys /\ PropCheck.allowed_tr g y = true).
Proof. exact SrcProofs.ent_discipline_meaning. Qed.
Print Assumptions C10_ent_one_guarded_update_per_transition.

(* the table the ent obligation compares with is the specification's own guard / replacement *)
Theorem C10_spec_edges_are_the_models :
  (forall c s now id t, lookup id s = Some t ->
     step c s (OCancel false now id) = guarded t Scheduled err_kind_cancel s (set_cancelled t now)
     /\ t_state (set_cancelled t now) = Cancelled)
  /\ (forall c s now id t, lookup id s = Some t ->
     step c s (ODispatch false now id) = guarded t Scheduled err_kind_dispatch s (set_dispatched t now)
     /\ t_state (set_dispatched t now) = Dispatched)
  /\ (forall c s now id e t, lookup id s = Some t ->
     step c s (ODone false now id e) = guarded t Dispatched err_kind_done s (set_done t now e)
     /\ (t_state (set_done t now e) = Done \/ t_state (set_done t now e) = Err)).
Proof. exact SrcProofs.spec_edge_is_the_models. Qed.
Print Assumptions C10_spec_edges_are_the_models.
