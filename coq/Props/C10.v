(* Props/C10.v — Repository operations are atomic under concurrency (linearizable).
   PARTIAL: that sync.Mutex gives mutual exclusion and that one SQLite statement is atomic is the contract of
   the runtime / database; what is proved is that the judge of the recorded concurrent histories is sound:
   whenever it accepts a history there exists a sequential order of the same calls, consistent with real-time
   precedence, that the sequential specification (Repo.step) explains — results and read-back included. *)
From GK Require Import Lin.
From GK.Proofs Require Import LinProofs.

Theorem C10_checker_sound : forall c x, lin_check c x = true ->
  exists s order, seq_run c [] (lc_pre x) = Some s
    /\ linearization c s (lc_calls x ++ post_calls (max_ret (lc_calls x)) (lc_post x)) order.
Proof. exact lin_check_sound. Qed.
Print Assumptions C10_checker_sound.

Theorem C10_search_sound : forall f c s pending,
  lin_search f c s pending = true -> exists order, linearization c s pending order.
Proof. exact lin_search_sound. Qed.
Print Assumptions C10_search_sound.

Theorem C10_uses_every_call_once : forall c s pending order,
  linearization c s pending order -> List.length order = List.length pending.
Proof. exact linearization_length. Qed.
Print Assumptions C10_uses_every_call_once.

Theorem C10_respects_real_time : forall c s pending order,
  linearization c s pending order ->
  forall x rest, order = x :: rest -> forall y, In y pending -> (c_inv x <= c_ret y)%nat.
Proof. exact linearization_respects_real_time. Qed.
Print Assumptions C10_respects_real_time.
