(* Props/C07.v — Observable repository timer is never late, never idle while work exists.
   Model: Hook.v (MutationHookTimer + wrapper over the repository specification + Timer.v). *)
From GK Require Import SysCheck.
From GK.Proofs Require Import SysSmall.

(* the pinned hook is refuted, the repaired one tracks the head on the same history *)
Theorem C07_pinned_refuted :
  omap t_id (hk_cached (hs_hook (hrun hcfg_pinned strand_history))) = Some "t1"
  /\ omap t_id (get_next (hs_repo (hrun hcfg_pinned strand_history))) = Some "t2"
  /\ omap t_id (hk_cached (hs_hook (hrun hcfg_fixed strand_history))) = Some "t2".
Proof. exact pinned_hook_goes_stale. Qed.
Print Assumptions C07_pinned_refuted.
