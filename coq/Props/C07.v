(* Props/C07.v — Observable repository timer is never late, never idle while work exists.
   Model: Hook.v (MutationHookTimer + wrapper over the repository specification + Timer.v). *)
From GK Require Import SysCheck.
From GK.Proofs Require Import SysSmall.

(* the pinned hook is refuted, the repaired one tracks the head on the same history *)
Theorem C07_pinned_refuted :
  omap t_id (hk_cached (hs_hook (hrun hcfg_pinned strand_history))) = Some "t1"
  /\ omap t_id (get_next (hs_repo (hrun hcfg_pinned strand_history))) = Some "t2"
  /\ omap t_id (hk_cached (hs_hook (hrun hcfg_fixed strand_history))) = Some "t2".
Proof. exact pinned_hook_goes_stale. Qed.
Print Assumptions C07_pinned_refuted.

(* ---- the invariant over all histories (Proofs/HookProofs.v), repaired hook ---- *)
From GK.Proofs Require Import HookProofs.

(* one operation through the wrapper — AddTask, UpdateById, Cancel, MarkAsDispatched, StartTimer, StopTimer,
   time advance, consume-the-fire-and-dispatch-the-head, each with or without a failing look-up inside the
   re-arming — preserves J: timer discipline; stopped => idle; an error => idle and reported; otherwise the
   cache names the task GetNext would return (id, time, priority) and a wake-up is pending or armed NOT LATER than
   that task's time. Side conditions: the clock does not go backwards, ids are fresh. *)
Theorem C07_invariant_step : forall now s o,
  RepoProofs.wf_repo (hs_repo s) -> J now s -> hop_ok now s o -> J (hop_time now o) (fst (hstep hcfg_fixed s o)).
Proof. exact hstep_J. Qed.
Print Assumptions C07_invariant_step.

Theorem C07_invariant_every_history : forall now0 ops,
  hops_ok now0 hs_init ops -> J (last_time now0 ops) (hrun ops).
Proof. exact hrun_J. Qed.
Print Assumptions C07_invariant_every_history.

(* what J says, spelled out *)
Theorem C07_invariant_meaning : forall now s, J now s ->
  (tm_armed (hs_timer s) <> None -> tm_pending (hs_timer s) = false) /\
  (hk_started (hs_hook s) = false -> hs_timer s = timer_idle /\ hk_cached (hs_hook s) = None) /\
  (hk_started (hs_hook s) = true -> hk_err (hs_hook s) = false ->
   match get_next (hs_repo s) with
   | Some h => exists c, hk_cached (hs_hook s) = Some c /\ t_id c = t_id h /\ t_sched c = t_sched h /\ t_prio c = t_prio h
   | None => hk_cached (hs_hook s) = None
   end) /\
  (hk_started (hs_hook s) = true -> hk_err (hs_hook s) = false ->
   forall h, get_next (hs_repo s) = Some h ->
   tm_pending (hs_timer s) = true \/ (exists d, tm_armed (hs_timer s) = Some d /\ d <= inst (t_sched h))) /\
  (hk_err (hs_hook s) = true -> hs_timer s = timer_idle /\ hk_cached (hs_hook s) = None) /\
  Forall (fun u => inst (t_created u) <= inst (norm now)) (hs_repo s).
Proof. exact J_parts. Qed.
Print Assumptions C07_invariant_meaning.

(* executable form: the predicate the check evaluates on the real wrapper holds at every step of every history *)
Theorem C07_predicate_every_step : forall now0 ops,
  hops_ok now0 hs_init ops -> c07_hist false (model_hhist hs_init ops) 0 = None.
Proof. exact model_c07_hist_init. Qed.
Print Assumptions C07_predicate_every_step.

(* a failure to look up the next task while re-arming is reported, not swallowed; and it stays reported *)
Theorem C07_rearm_error_reported : forall s o,
  timer_ok (hs_timer s) -> hop_fault o = true ->
  hk_started (hs_hook s) = true \/ (exists n, o = HStart true n) ->
  fault_outcome s (fst (hstep hcfg_fixed s o)).
Proof. exact fault_reported. Qed.
Print Assumptions C07_rearm_error_reported.
Theorem C07_error_sticky : forall nw s o,
  J nw s -> hk_started (hs_hook s) = true -> hk_err (hs_hook s) = true ->
  (hk_err (hs_hook (fst (hstep hcfg_fixed s o))) = true /\ hs_timer (fst (hstep hcfg_fixed s o)) = timer_idle)
  \/ (hop_fault o = false /\ hk_err (hs_hook (fst (hstep hcfg_fixed s o))) = false).
Proof. exact err_sticky. Qed.
Print Assumptions C07_error_sticky.

(* after StopTimer nothing fires until StartTimer *)
Theorem C07_stopped_silent : forall now s n,
  J now s -> hk_started (hs_hook s) = false ->
  hs_timer s = timer_idle /\ hs_timer (fst (hstep hcfg_fixed s (HAdvance n))) = timer_idle.
Proof. exact stopped_quiet. Qed.
Print Assumptions C07_stopped_silent.

(* the two defects that were repaired, as refutations of the corresponding model variants *)
Theorem C07_pinned_violates : c07_ok (started_of pinned_hist) (hobs_of (hrun_cfg hcfg_pinned pinned_hist)) = false.
Proof. exact pinned_c07_violated. Qed.
Print Assumptions C07_pinned_violates.
Theorem C07_without_normalization_violates :
  c07_ok (started_of submilli_hist) (hobs_of (hrun_cfg hcfg_nonorm submilli_hist)) = false.
Proof. exact nonorm_submilli_c07_violated. Qed.
Print Assumptions C07_without_normalization_violates.
