(* Props/C01.v — Task lifecycle is a strict state machine; failed operations change nothing.
   Only statements; every proof is `exact <lemma>` (lemmas in Proofs/). [cfg] ranges over the
   behaviours of both repository implementations (cfg_inmem, cfg_ent), each tied to the code by the
   correspondence check. *)
From GK Require Import PropCheck.
From GK.Proofs Require Import BaseLemmas RepoProofs RepoProofs2.

(* an operation that returns an error leaves every stored task unchanged (any state, any operation) *)
Theorem C01_error_no_change : forall (c : cfg) (s : repo) (o : op),
  is_err (snd (step c s o)) = true -> fst (step c s o) = s.
Proof. exact error_no_change. Qed.
Print Assumptions C01_error_no_change.

(* a stored task only moves scheduled->cancelled, scheduled->dispatched, dispatched->done|err, or stays *)
Theorem C01_transitions : forall (c : cfg) (s : repo) (o : op) (id : string) (t t' : task),
  admin_op o = false -> lookup id s = Some t -> lookup id (fst (step c s o)) = Some t' ->
  allowed_tr (t_state t) (t_state t') = true.
Proof. exact transitions_allowed. Qed.
Print Assumptions C01_transitions.

(* tasks appear only through AddTask, and they appear scheduled *)
Theorem C01_new_tasks_scheduled : forall (c : cfg) (s : repo) (o : op) (id : string) (t' : task),
  admin_op o = false -> lookup id s = None -> lookup id (fst (step c s o)) = Some t' ->
  t_state t' = Scheduled /\ exists ctx now p, o = OAdd ctx now id p.
Proof. exact new_tasks_scheduled. Qed.
Print Assumptions C01_new_tasks_scheduled.

(* success only when nothing forbids it (context live, id known, parameter valid, task scheduled resp.
   dispatched); an error names an applicable reason: unknown id / cancelled context / invalid task /
   already cancelled / dispatched / done / not dispatched, decided from the task's STATE although the
   code derives it from time stamps *)
Theorem C01_success_iff_and_error_kind : forall (c : cfg) (s : repo) (o : op),
  wf_repo s -> admin_op o = false ->
  let (must, may) := reasons s o in
  match snd (step c s o) with
  | RErr e => mem_err e must || mem_err e may = true
  | _ => must = []
  end.
Proof. exact step_reasons. Qed.
Print Assumptions C01_success_iff_and_error_kind.

(* every state reachable by a history (fresh ids, well-formed snapshots) is well-formed, so the
   theorem above applies at every step of every history *)
Theorem C01_history_wf : forall (c : cfg) (ops : list op),
  ops_ok c [] ops -> wf_repo (run c ops).
Proof. intros c ops H. exact (run_wf c ops [] wf_empty H). Qed.
Print Assumptions C01_history_wf.

(* executable form: the predicate the check evaluates on the real code's observations holds of the
   model's own observation of every step from every well-formed state *)
Theorem C01_model_satisfies_predicate : forall (c : cfg) (s : repo) (o : op),
  wf_repo s -> op_ok s o -> p_C01 c s o (model_obs c s o) = true.
Proof. exact model_obs_C01. Qed.
Print Assumptions C01_model_satisfies_predicate.

(* non-vacuity: a concrete reachable state with tasks in several states *)
Example C01_nonvacuous :
  let ops := [OAdd false (T 5 true) "t1" (mkU (Some "w") None None None (Some (T 60000000000 true)) None);
              OAdd false (T 5 true) "t2" (mkU (Some "w") (Some 1) None None (Some (T 60000000000 false)) None);
              ODispatch false (T 7000000 true) "t1";
              OCancel false (T 8000000 true) "t2";
              ODone false (T 9000000 true) "t1" (Some "boom")] in
  map t_state (run cfg_inmem ops) = [Err; Cancelled] /\
  snd (step cfg_inmem (run cfg_inmem ops) (OCancel false (T 1 true) "t1")) = RErr EAlreadyDone.
Proof. vm_compute. split; reflexivity. Qed.
