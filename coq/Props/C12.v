(* Props/C12.v — Stored tasks are always valid, normalized and timestamp-consistent. *)
From GK Require Import PropCheck.
From GK.Proofs Require Import BaseLemmas RepoProofs RepoProofs2.

(* wf_task (PropCheck.v): valid, all times whole milliseconds in UTC, stamps consistent with state *)

(* one step keeps every stored task well-formed (ids stay distinct) *)
Theorem C12_step_wf : forall (c : cfg) (s : repo) (o : op),
  wf_repo s -> op_ok s o -> wf_repo (fst (step c s o)).
Proof. exact step_wf. Qed.
Print Assumptions C12_step_wf.

(* hence every task of every state reachable by any history *)
Theorem C12_wf_invariant : forall (c : cfg) (ops : list op),
  ops_ok c [] ops -> wf_repo (run c ops).
Proof. intros c ops H. exact (run_wf c ops [] wf_empty H). Qed.
Print Assumptions C12_wf_invariant.

(* every task returned by AddTask / GetById / Find / GetNext is well-formed *)
Theorem C12_returned_wf : forall (c : cfg) (s : repo) (o : op),
  wf_repo s -> op_ok s o -> Forall (fun t => wf_task t = true) (res_tasks (snd (step c s o))).
Proof. exact step_results_wf. Qed.
Print Assumptions C12_returned_wf.

(* id and creation time never change, no task vanishes (except by DeleteEnded / Load) *)
Theorem C12_id_created_immutable : forall (c : cfg) (s : repo) (o : op) (id : string) (t : task),
  wf_repo s -> lookup id s = Some t ->
  match o with
  | ODeleteEnded | OLoad _ => True
  | _ => exists t', lookup id (fst (step c s o)) = Some t' /\ t_id t' = t_id t /\ t_created t' = t_created t
  end.
Proof. exact step_id_created_immutable. Qed.
Print Assumptions C12_id_created_immutable.

(* an update is accepted exactly when the resulting task is valid (for a well-formed stored task) *)
Theorem C12_update_valid_iff : forall (t : task) (p : uparam),
  wf_task t = true -> is_valid (task_update t (norm_uparam p)) = negb (invalid_update p).
Proof. exact valid_update_iff. Qed.
Print Assumptions C12_update_valid_iff.

(* pure helpers *)
Theorem C12_norm_idempotent : forall t, norm (norm t) = norm t.
Proof. exact norm_idem. Qed.
Print Assumptions C12_norm_idempotent.
Theorem C12_to_task_wf : forall p id now, is_valid (to_task p id now) = true -> wf_task (to_task p id now) = true.
Proof. exact to_task_wf. Qed.
Print Assumptions C12_to_task_wf.

(* executable form *)
Theorem C12_model_satisfies_predicate : forall (c : cfg) (s : repo) (o : op),
  wf_repo s -> op_ok s o -> p_C12 c s o (model_obs c s o) = true.
Proof. exact model_obs_C12. Qed.
Print Assumptions C12_model_satisfies_predicate.

Example C12_invalid_rejected :
  snd (step cfg_inmem [] (OAdd false (T 5 true) "t1" (mkU (Some "") None None None (Some (T 60000000000 true)) None))) = RErr EInvalidTask
  /\ snd (step cfg_ent [] (OAdd false (T 5 true) "t1" (mkU (Some "w") None None None (Some tzero) None))) = RErr EInvalidTask.
Proof. vm_compute. split; reflexivity. Qed.
