(* Props/C08.v — Worker-pool dispatcher bounds concurrency and applies back-pressure.
   PARTIAL by construction: the unbuffered-channel rendezvous and ngicks/workerpool's Add / Remove are
   modelled (Disp.v: an LTS over the observable events of Dispatch / Exec); only Dispatch and Exec are
   /repo code. The harness validates every observed event sequence of the real dispatcher against pstep. *)
From GK Require Import Disp.
From GK.Proofs Require Import DispProofs.

(* invariant of every accepted event sequence: the number of running work functions never exceeds the
   live workers: target + removed-but-still-busy workers (each possibility the LTS keeps) *)
Theorem C08_invariant : forall tr p', prun pool_init tr = Some p' -> pool_inv p'.
Proof. intros tr p' H. exact (pool_inv_run tr pool_init p' pool_inv_init H). Qed.
Print Assumptions C08_invariant.

(* with n workers and no removal: never more than n work functions at the same time *)
Theorem C08_bound : forall tr p', has_remove tr = false -> prun pool_init tr = Some p' ->
  (List.length (p_running p') <= p_target p')%nat.
Proof. intros tr p' Hr H. exact (bound_without_resize tr pool_init p' pool_inv_init eq_refl Hr H). Qed.
Print Assumptions C08_bound.

(* back-pressure / no loss, no duplication: a call starts at most once; a Dispatch returns its channel only
   for a call a worker accepted, and its context's error only for a cancelled call that then never runs *)
Theorem C08_start_at_most_once : forall p k p', pstep p (PStart k) = Some p' -> pstep p' (PStart k) = None.
Proof. exact start_at_most_once. Qed.
Print Assumptions C08_start_at_most_once.
Theorem C08_no_start_after_ctx_return : forall p k p', pstep p (PReturnCtx k) = Some p' -> pstep p' (PStart k) = None.
Proof. exact no_start_after_ctx_return. Qed.
Print Assumptions C08_no_start_after_ctx_return.
Theorem C08_started_is_forever : forall p e p' k, pstep p e = Some p' -> mem k (p_started p) = true -> mem k (p_started p') = true.
Proof. exact started_mono. Qed.
Print Assumptions C08_started_is_forever.
Theorem C08_return_ok_only_accepted : forall p k p', pstep p (PReturnOk k) = Some p' -> mem k (p_started p) = true.
Proof. exact return_ok_only_accepted. Qed.
Print Assumptions C08_return_ok_only_accepted.
Theorem C08_return_ctx_only_cancelled : forall p k p', pstep p (PReturnCtx k) = Some p' -> mem k (p_cancelled p) = true.
Proof. exact return_ctx_only_cancelled. Qed.
Print Assumptions C08_return_ctx_only_cancelled.
