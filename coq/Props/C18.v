(* Props/C18.v — Schedule mutators are total and keep times within their window.
   Modelled: the decision logic of package mutator. time.ParseDuration / strconv.ParseInt results are
   oracle inputs (supplied by the harness from the same standard-library functions); crypto/rand.Int is
   assumed to return 0 <= v < max. *)
From GK Require Import Mutator.
From GK.Proofs Require Import BaseLemmas MutProofs.

(* every draw lands in the window, degenerate windows (Min = Max, single bound) included *)
Theorem C18_window : forall r rv, 0 <= rv < Z.abs (r_max r - r_min r) \/ r_max r = r_min r ->
  in_window r (offset_of r rv) = true.
Proof. exact offset_in_window. Qed.
Print Assumptions C18_window.
Theorem C18_window_bounds : forall r off, in_window r off = true ->
  Z.min (r_min r) (r_max r) <= off <= Z.max (r_min r) (r_max r) /\ (off = r_max r -> r_min r = r_max r).
Proof. exact window_bounds. Qed.
Print Assumptions C18_window_bounds.

(* the stored (normalized) time stays within the normalized window ... *)
Theorem C18_ms : forall r base off, in_window r off = true ->
  inst (norm (t_add base (Z.min (r_min r) (r_max r)))) <= inst (norm (t_add base off))
  <= inst (norm (t_add base (Z.max (r_min r) (r_max r)))).
Proof. exact window_after_norm. Qed.
Print Assumptions C18_ms.
(* ... and is base + an in-window offset when base and bounds are whole milliseconds *)
Theorem C18_ms_exact : forall r base off, in_window r off = true ->
  inst base mod ms = 0 -> r_min r mod ms = 0 -> r_max r mod ms = 0 ->
  exists off', inst (norm (t_add base off)) = inst base + off'
               /\ Z.min (r_min r) (r_max r) <= off' <= Z.max (r_min r) (r_max r).
Proof. exact window_ms_exact. Qed.
Print Assumptions C18_ms_exact.

Theorem C18_now : forall now off p, u_sched (mutate MNow now off p) = Some (norm now).
Proof. exact mutate_now. Qed.
Print Assumptions C18_now.

(* malformed durations are reported as errors, nothing else is *)
Theorem C18_parse_error_iff : forall s o, parse_dur s o = None <-> s <> "" /\ po_dur o = None /\ po_int o = None.
Proof. exact parse_dur_err. Qed.
Print Assumptions C18_parse_error_iff.

Theorem C18_store_exact : forall c s now fresh p omax omin off l t,
  load_mutators (match u_meta p with Some m => m | None => [] end) omax omin = Some l ->
  snd (mutating_add c s false now fresh p omax omin off) = RTask t ->
  t = to_task (norm_uparam (apply_mutators l now off p)) fresh now
  /\ fst (mutating_add c s false now fresh p omax omin off) = s ++ [t].
Proof. exact mutating_add_stores_mutated. Qed.
Print Assumptions C18_store_exact.

Example C18_degenerate_window : in_window (mkRsa 5 5) (offset_of (mkRsa 5 5) 12345) = true
  /\ in_window (mkRsa 0 1000) (offset_of (mkRsa 0 1000) 999) = true
  /\ in_window (mkRsa 1000 (-1000)) (offset_of (mkRsa 1000 (-1000)) 1999) = true.
Proof. vm_compute. repeat split. Qed.
