(* Props/C15.v — Cron store emits every occurrence of every entry exactly once, in order.
   The schedule is an arbitrary function nxt (robfig/cron; `nxt_increasing` is checked by the harness on
   every table it builds). *)
From GK Require Import Cron.
From GK.Proofs Require Import CronProofs.

(* Pop / Peek hand out a minimum of the heap order (time, priority desc, creation, insertion) *)
Theorem C15_pop_is_min : forall l h, pt_min None l = Some h -> In h l /\ forall u, In u l -> pt_lt u h = false.
Proof. exact pop_is_min. Qed.
Print Assumptions C15_pop_is_min.
Theorem C15_exhausted_iff : forall l, pt_min None l = None <-> l = [].
Proof. exact pop_none_iff. Qed.
Print Assumptions C15_exhausted_iff.

(* one Pop: returns the head, advances exactly the cursor of the entry it belongs to by one occurrence,
   leaves one new pending task for that entry made from the NEXT occurrence, touches no other entry *)
Theorem C15_pop_advances_entry : forall nxt c now h eid e,
  pt_min None (cr_pending c) = Some h ->
  entries_get (cr_entries c) (pt_key h) = Some eid ->
  arena_get (cr_arena c) eid = Some e ->
  let c' := fst (pop nxt c now) in
  snd (pop nxt c now) = Some (pt_task h)
  /\ arena_get (cr_arena c') eid = Some (mkEntry (e_row e) (nxt eid (e_prev e)))
  /\ (exists nx, In nx (cr_pending c') /\ pt_key nx = pt_key h /\ pt_occ nx = nxt eid (e_prev e)
                 /\ pt_ins nx = S (cr_ins c))
  /\ cr_entries c' = cr_entries c
  /\ (forall eid', eid' <> eid -> arena_get (cr_arena c') eid' = arena_get (cr_arena c) eid').
Proof. exact pop_advances_entry. Qed.
Print Assumptions C15_pop_advances_entry.
