(* Props/C15.v — Cron store emits every occurrence of every entry exactly once, in order.
   The schedule is an arbitrary function nxt (robfig/cron; `nxt_increasing` is checked by the harness on
   every table it builds). *)
From GK Require Import Cron.
From GK.Proofs Require Import CronProofs.

(* Pop / Peek hand out a minimum of the heap order (time, priority desc, creation, insertion) *)
Theorem C15_pop_is_min : forall l h, pt_min None l = Some h -> In h l /\ forall u, In u l -> pt_lt u h = false.
Proof. exact pop_is_min. Qed.
Print Assumptions C15_pop_is_min.
Theorem C15_exhausted_iff : forall l, pt_min None l = None <-> l = [].
Proof. exact pop_none_iff. Qed.
Print Assumptions C15_exhausted_iff.

(* one Pop: returns the head, advances exactly the cursor of the entry it belongs to by one occurrence,
   leaves one new pending task for that entry made from the NEXT occurrence, touches no other entry *)
Theorem C15_pop_advances_entry : forall nxt c now h eid e,
  pt_min None (cr_pending c) = Some h ->
  entries_get (cr_entries c) (pt_key h) = Some eid ->
  arena_get (cr_arena c) eid = Some e ->
  let c' := fst (pop nxt c now) in
  snd (pop nxt c now) = Some (pt_task h)
  /\ arena_get (cr_arena c') eid = Some (mkEntry (e_row e) (nxt eid (e_prev e)))
  /\ (exists nx, In nx (cr_pending c') /\ pt_key nx = pt_key h /\ pt_occ nx = nxt eid (e_prev e)
                 /\ pt_ins nx = S (cr_ins c))
  /\ cr_entries c' = cr_entries c
  /\ (forall eid', eid' <> eid -> arena_get (cr_arena c') eid' = arena_get (cr_arena c) eid').
Proof. exact pop_advances_entry. Qed.
Print Assumptions C15_pop_advances_entry.

(* ---- full strength: invariants and the stream over whole histories (Proofs/CronInv.v) ---- *)
From GK.Proofs Require Import CronInv.
From Coq Require Import Permutation.

(* after every history the store holds exactly one pending occurrence per entry, and nothing else *)
Theorem C15_one_pending_per_entry : forall nxt ops,
  let c := crun nxt cron_empty ops in
  Permutation (map pt_key (cr_pending c)) (map fst (cr_entries c)) /\ NoDup (map fst (cr_entries c)).
Proof. intros nxt ops c. split; [exact (i_perm nxt c (inv15_history_empty nxt ops)) | exact (i_nodup_keys nxt c (inv15_history_empty nxt ops))]. Qed.
Print Assumptions C15_one_pending_per_entry.
Theorem C15_invariant_every_history : forall nxt ops, Inv15 nxt (crun nxt cron_empty ops).
Proof. exact inv15_history_empty. Qed.
Print Assumptions C15_invariant_every_history.

(* one Pop, under the invariant: the head was made from the occurrence its entry's cursor points at; the
   cursor moves by exactly one occurrence; the only pending task of that entry is the new one made from the
   next occurrence; nothing else changes *)
Theorem C15_pop_stream : forall nxt c now t,
  Inv15 nxt c -> snd (pop nxt c now) = Some t ->
  exists h eid e,
    pt_min None (cr_pending c) = Some h /\ t = pt_task h /\ In (pt_key h, eid) (cr_entries c)
    /\ arena_get (cr_arena c) eid = Some e /\ pt_occ h = e_prev e
    /\ let c' := fst (pop nxt c now) in
       (exists nx, In nx (cr_pending c') /\ pt_key nx = pt_key h /\ pt_occ nx = nxt eid (e_prev e)
                   /\ pt_ins nx = S (cr_ins c)
                   /\ forall q, In q (cr_pending c') -> pt_key q = pt_key h -> q = nx)
       /\ ~ In h (cr_pending c')
       /\ arena_get (cr_arena c') eid = Some (mkEntry (e_row e) (nxt eid (e_prev e)))
       /\ (forall q, pt_key q <> pt_key h -> In q (cr_pending c') <-> In q (cr_pending c))
       /\ (forall eid', eid' <> eid -> arena_get (cr_arena c') eid' = arena_get (cr_arena c) eid')
       /\ cr_entries c' = cr_entries c.
Proof. exact pop_stream. Qed.
Print Assumptions C15_pop_stream.

(* THE property: along any run that keeps entry (k, eid) — Pops of anything, Peeks, timer operations,
   accepted or rejected edits of other entries — the tasks handed out for it are made from exactly
   c0, nxt c0, nxt (nxt c0), ... in this order: none skipped, none repeated *)
Theorem C15_stream : forall nxt k eid ops c e,
  Inv15 nxt c -> In (k, eid) (cr_entries c) -> arena_get (cr_arena c) eid = Some e -> keeps_run nxt c k ops ->
  let served := filter (fun h => ckey_eqb (pt_key h) k) (popped nxt c ops) in
  map pt_occ served = iter_occ (nxt eid) (e_prev e) (List.length served)
  /\ In (k, eid) (cr_entries (crun nxt c ops))
  /\ arena_get (cr_arena (crun nxt c ops)) eid
     = Some (mkEntry (e_row e) (iter_n (nxt eid) (List.length served) (e_prev e))).
Proof. exact stream_run. Qed.
Print Assumptions C15_stream.

(* Pop reports 'exhausted' only for an empty store: the defensive branches of pop are unreachable *)
Theorem C15_pop_exhausted_iff : forall nxt c now, Inv15 nxt c -> (snd (pop nxt c now) = None <-> cr_pending c = []).
Proof. exact pop_some_iff. Qed.
Print Assumptions C15_pop_exhausted_iff.
