(* Props/C02.v — GetNext always yields the earliest eligible task (time, priority, age, FIFO).
   Level of the sequential specification (FIFO = position in the insertion-ordered list); the
   concrete heap of the in-memory repository is tied to it by Proofs/Heap*.v (when present) and by the
   correspondence check with the heap-draining generator. *)
From GK Require Import PropCheck.
From GK.Proofs Require Import BaseLemmas RepoProofs RepoProofs2.
From GK.Proofs Require PredProofs RepoProofs2.

(* (time, priority desc, creation time) is a strict weak order *)
Theorem C02_key_irrefl : forall a, key_lt3 a a = false.
Proof. exact key_lt3_irrefl. Qed.
Print Assumptions C02_key_irrefl.
Theorem C02_key_trans : forall a b c, key_lt3 a b = true -> key_lt3 b c = true -> key_lt3 a c = true.
Proof. exact key_lt3_trans. Qed.
Print Assumptions C02_key_trans.
Theorem C02_key_negtrans : forall a b c, key_lt3 a b = false -> key_lt3 b c = false -> key_lt3 a c = false.
Proof. exact key_lt3_negtrans. Qed.
Print Assumptions C02_key_negtrans.

(* the task returned is stored, scheduled, and no scheduled task precedes it — in every state *)
Theorem C02_get_next_is_min : forall (s : repo) (t : task), get_next s = Some t ->
  In t s /\ is_sched t = true /\ forall u, In u s -> is_sched u = true -> key_lt3 u t = false.
Proof. exact get_next_min. Qed.
Print Assumptions C02_get_next_is_min.

(* 'exhausted' exactly when no scheduled task exists *)
Theorem C02_exhausted_iff : forall (s : repo), get_next s = None <-> forall u, In u s -> is_sched u = false.
Proof. exact get_next_none. Qed.
Print Assumptions C02_exhausted_iff.

(* hence after any history (additions, updates, cancellations, dispatches, loads) *)
Theorem C02_after_any_history : forall (c : cfg) (ops : list op) (t : task),
  snd (step c (run c ops) (ONext false)) = RTask t ->
  In t (run c ops) /\ is_sched t = true /\
  forall u, In u (run c ops) -> is_sched u = true -> key_lt3 u t = false.
Proof.
  intros c ops t H. cbn in H. rewrite andb_false_r in H.
  destruct (get_next (run c ops)) eqn:E; inversion H; subst. exact (get_next_min _ _ E).
Qed.
Print Assumptions C02_after_any_history.

Example C02_tie_break :
  let p sched prio := mkU (Some "w") (Some prio) None None (Some (T sched true)) None in
  let ops := [OAdd false (T 1000000 true) "t1" (p 60000000000 0);
              OAdd false (T 1000000 true) "t2" (p 60000000000 1);
              OAdd false (T 1000000 true) "t3" (p 60000000000 1);
              OAdd false (T 0 true) "t4" (p 120000000000 5)] in
  omap t_id (get_next (run cfg_inmem ops)) = Some "t2"
  /\ omap t_id (get_next (run cfg_inmem (ops ++ [OCancel false (T 0 true) "t2"]))) = Some "t3".
Proof. vm_compute. split; reflexivity. Qed.

(* ---- the concrete in-memory repository: container/heap + Index hooks + ordered map (Heap.v) ---- *)
From GK Require Import Heap.
From GK.Proofs Require Import HeapProofs.

(* sortabletask.Less is a strict total order on elements with distinct insertion numbers *)
Theorem C02_less_total : forall a b, it_ins a <> it_ins b -> iless a b = true \/ iless b a = true.
Proof. exact iless_total. Qed.
Print Assumptions C02_less_total.

(* REFINEMENT: under the representation invariant every in-memory operation, executed on the concrete heap /
   map / counter exactly as the Go code does (Push, Fix(Index), Remove(Index), Peek), returns what the
   specification returns and re-establishes the invariant; no slice index or stale Index is ever out of range *)
Theorem C02_inmem_refines : forall c s o, Rep c s -> op_ok s o -> inmem_op o = true ->
  let (c', r) := cstep c o in let (s', r') := step cfg_inmem s o in r = r' /\ Rep c' s'.
Proof. exact cstep_refines. Qed.
Print Assumptions C02_inmem_refines.
Theorem C02_inmem_no_fault : forall c s o, Rep c s -> op_ok s o -> cstep_opt c o <> None.
Proof. exact cstep_no_fault. Qed.
Print Assumptions C02_inmem_no_fault.

(* hence for every history: the concrete repository's outputs ARE the specification's outputs (in particular
   every GetNext is the minimum proved above), and in every reachable state the stored Index is the true heap
   position, the heap order holds and no element is in the heap twice *)
Theorem C02_inmem_outputs : forall ops, ops_ok cfg_inmem [] ops -> forallb inmem_op ops = true ->
  coutputs cinit ops = outputs cfg_inmem [] ops.
Proof. exact concrete_outputs. Qed.
Print Assumptions C02_inmem_outputs.
Theorem C02_heap_invariant : forall ops, ops_ok cfg_inmem [] ops -> forallb inmem_op ops = true ->
  let h := c_hp (crun ops) in
  (forall k, (k < hlen h)%nat -> it_index (ent h k) = Z.of_nat k)
  /\ (forall k, (0 < k < hlen h)%nat -> iless (ent h k) (ent h (par k)) = false)
  /\ NoDup (harr h).
Proof. exact crun_index_ok. Qed.
Print Assumptions C02_heap_invariant.

(* executable form: the predicate the check evaluates on the real code's observations (GetNext after every operation is a
   documented minimum, ONext answers exactly that or Exhausted) holds of the model's own observation of every step *)
Theorem C02_model_satisfies_predicate : forall (c : cfg) (s : repo) (o : op),
  RepoProofs.wf_repo s -> RepoProofs.op_ok s o -> p_C02 c s o (RepoProofs2.model_obs c s o) = true.
Proof. exact PredProofs.model_obs_C02. Qed.
Print Assumptions C02_model_satisfies_predicate.
