(* Props/C14.v — In-memory snapshot round trip preserves behaviour (level of the specification: a
   snapshot is the stored list in map order; the concrete heap / insertion counters rebuilt by Load
   are covered by the lock-step correspondence and by Proofs/Heap*.v when present). *)
From GK Require Import PropCheck.
From GK.Proofs Require Import BaseLemmas RepoProofs RecoverProofs.
From GK.Proofs Require PredProofs RepoProofs2.

Theorem C14_load_save_identity : forall c s target, wf_repo s -> step c target (OLoad s) = (s, ROk).
Proof. exact load_save_identity. Qed.
Print Assumptions C14_load_save_identity.

Theorem C14_roundtrip : forall c s ops, wf_repo s ->
  outputs c (fst (step c [] (OLoad s))) ops = outputs c s ops.
Proof. exact snapshot_roundtrip_outputs. Qed.
Print Assumptions C14_roundtrip.

Theorem C14_invalid_rejected : forall c kv target,
  forallb is_valid kv = false -> step c target (OLoad kv) = (target, RErr EInvalidTask).
Proof. exact load_invalid_rejected. Qed.
Print Assumptions C14_invalid_rejected.

(* ---- concrete level (Heap.v): Save, then Load into a FRESH repository — new heap layout, new insertion
   numbers, Index fields recomputed — represents the same abstract repository, hence is indistinguishable from
   the original under every continuation ---- *)
From GK Require Import Heap.
From GK.Proofs Require Import HeapProofs.

Theorem C14_concrete_roundtrip : forall c s, Rep c s -> Rep (load_fresh (csave c)) s.
Proof. exact save_load_rep. Qed.
Print Assumptions C14_concrete_roundtrip.
Theorem C14_concrete_indistinguishable : forall c s ops, Rep c s -> ops_ok cfg_inmem s ops ->
  forallb inmem_op ops = true -> coutputs (load_fresh (csave c)) ops = coutputs c ops.
Proof. exact save_load_indistinguishable. Qed.
Print Assumptions C14_concrete_indistinguishable.
Theorem C14_reachable_roundtrip : forall ops cont,
  ops_ok cfg_inmem [] ops -> forallb inmem_op ops = true ->
  ops_ok cfg_inmem (run cfg_inmem ops) cont -> forallb inmem_op cont = true ->
  Rep (load_fresh (csave (crun ops))) (run cfg_inmem ops)
  /\ coutputs (load_fresh (csave (crun ops))) cont = coutputs (crun ops) cont.
Proof. exact reachable_save_load. Qed.
Print Assumptions C14_reachable_roundtrip.

(* executable form of "an invalid snapshot is refused without a trace, a valid one is accepted" *)
Theorem C14_model_satisfies_load_predicate : forall (c : cfg) (s : repo) (o : op),
  p_load c s o (RepoProofs2.model_obs c s o) = true.
Proof. exact PredProofs.model_obs_load_gen. Qed.
Print Assumptions C14_model_satisfies_load_predicate.
