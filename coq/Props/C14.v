(* Props/C14.v — In-memory snapshot round trip preserves behaviour (level of the specification: a
   snapshot is the stored list in map order; the concrete heap / insertion counters rebuilt by Load
   are covered by the lock-step correspondence and by Proofs/Heap*.v when present). *)
From GK Require Import PropCheck.
From GK.Proofs Require Import BaseLemmas RepoProofs RecoverProofs.

Theorem C14_load_save_identity : forall c s target, wf_repo s -> step c target (OLoad s) = (s, ROk).
Proof. exact load_save_identity. Qed.
Print Assumptions C14_load_save_identity.

Theorem C14_roundtrip : forall c s ops, wf_repo s ->
  outputs c (fst (step c [] (OLoad s))) ops = outputs c s ops.
Proof. exact snapshot_roundtrip_outputs. Qed.
Print Assumptions C14_roundtrip.

Theorem C14_invalid_rejected : forall c kv target,
  forallb is_valid kv = false -> step c target (OLoad kv) = (target, RErr EInvalidTask).
Proof. exact load_invalid_rejected. Qed.
Print Assumptions C14_invalid_rejected.
