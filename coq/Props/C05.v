(* Props/C05.v — Every due task is eventually dispatched: no lost or stranded wake-up. *)
From GK Require Import SysCheck.
From GK.Proofs Require Import SysSmall.

(* a consumed fire is never simply lost: either a task is announced, or the scheduler records that the timer
   has to be restarted (the next Step stops and starts it again) *)
Theorem C05_stale_fire_forces_restart : forall hc s f hf r s' next,
  sy_pc s = PFire2 next ->
  sys_step scfg_fixed hc s (LCall CNextSched f hf r) = Some s' ->
  sy_last s' = None -> sy_err s' = true.
Proof. exact stale_fire_forces_restart. Qed.
Print Assumptions C05_stale_fire_forces_restart.

(* the defect that was repaired: with the pinned hook a postponed head leaves the cache stale (then a dispatch
   of the real head re-arms nothing); the repaired hook tracks the new head on the same history *)
Theorem C05_pinned_hook_refuted :
  omap t_id (hk_cached (hs_hook (hrun hcfg_pinned strand_history))) = Some "t1"
  /\ omap t_id (get_next (hs_repo (hrun hcfg_pinned strand_history))) = Some "t2"
  /\ omap t_id (hk_cached (hs_hook (hrun hcfg_fixed strand_history))) = Some "t2".
Proof. exact pinned_hook_goes_stale. Qed.
Print Assumptions C05_pinned_hook_refuted.
