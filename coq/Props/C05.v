(* Props/C05.v — Every due task is eventually dispatched: no lost or stranded wake-up. *)
From GK Require Import SysCheck.
From GK.Proofs Require Import SysSmall.
From GK.Proofs Require SysProofs RestProofs VSysProofs VRestProofs LiveProofs VLiveProofs.
From GK Require Import VSys.

(* a consumed fire is never simply lost: either a task is announced, or the scheduler records that the timer
   has to be restarted (the next Step stops and starts it again) *)
Theorem C05_stale_fire_forces_restart : forall hc s f hf r s' next,
  sy_pc s = PFire2 next ->
  sys_step scfg_fixed hc s (LCall CNextSched f hf r) = Some s' ->
  sy_last s' = None -> sy_err s' = true.
Proof. exact stale_fire_forces_restart. Qed.
Print Assumptions C05_stale_fire_forces_restart.

(* the defect that was repaired: with the pinned hook a postponed head leaves the cache stale (then a dispatch
   of the real head re-arms nothing); the repaired hook tracks the new head on the same history *)
Theorem C05_pinned_hook_refuted :
  omap t_id (hk_cached (hs_hook (hrun hcfg_pinned strand_history))) = Some "t1"
  /\ omap t_id (get_next (hs_repo (hrun hcfg_pinned strand_history))) = Some "t2"
  /\ omap t_id (hk_cached (hs_hook (hrun hcfg_fixed strand_history))) = Some "t2".
Proof. exact pinned_hook_goes_stale. Qed.
Print Assumptions C05_pinned_hook_refuted.

(* ---- the safety half over all sequential histories of the observable repository (Proofs/HookProofs.v):
   whenever the timer is started and no look-up error is pending, a wake-up is pending or armed not later than
   the head's time — the scheduler cannot be left waiting on an idle timer while a task is due ---- *)
From GK.Proofs Require Import HookProofs.
Theorem C05_never_idle_with_work : forall now0 ops,
  hops_ok now0 hs_init ops -> c07_ok (started_of ops) (hobs_of (hrun ops)) = true.
Proof. exact hrun_c07. Qed.
Print Assumptions C05_never_idle_with_work.

(* ---- "The scheduler never ends up waiting on an idle timer while a due task exists" (hook-timer configuration),
   as a theorem over ALL accepted traces, faults at the scheduler's own calls included (Proofs/RestProofs.v).
   Hypotheses, each shown necessary by an accepted witness trace (C05_*_refuted below):
   the run begins with StartTimer; no look-up failure inside the hook during a USER's mutation (observation O3 of
   DESIGN.md); user operations carry the system's clock reading; the driver answers a DispatchErr with Retry (the
   property's own premise). *)
Theorem C05_at_rest_nothing_is_due : forall tr s,
  SysProofs.srun sys_init tr = Some s -> SysProofs.srun_ok sys_init tr ->
  RestProofs.timer_started_first tr = true -> RestProofs.no_user_hook_fault tr = true ->
  RestProofs.trace_disciplined tr = true ->
  sy_pc s = PSelect -> tm_pending (hs_timer (sy_h s)) = false ->
  forall t, In t (SysProofs.repo_of s) -> t_state t = Scheduled -> inst (sy_now s) < inst (t_sched t).
Proof. exact RestProofs.C05_rest_no_due. Qed.
Print Assumptions C05_at_rest_nothing_is_due.

(* the predicate the check evaluates at quiescence holds of every such trace that ends with the dump *)
Theorem C05_predicate_holds_at_rest : forall tr dump now s,
  let tr' := (tr ++ [LDump dump now true])%list in
  SysProofs.srun sys_init tr' = Some s -> SysProofs.srun_ok sys_init tr' ->
  RestProofs.timer_started_first tr' = true -> RestProofs.no_user_hook_fault tr' = true ->
  RestProofs.trace_disciplined tr' = true ->
  tm_pending (hs_timer (sy_h s)) = false ->
  c05_ok tr' = true.
Proof. exact RestProofs.C05_predicate_at_rest. Qed.
Print Assumptions C05_predicate_holds_at_rest.

(* each hypothesis is necessary: accepted traces ending at rest with a due task (rest_report = (mismatch, at rest,
   due task exists, (H4, H1, H2, H3), c05_ok, ...)) *)
Theorem C05_user_hook_fault_refuted :
  RestProofs.rest_report RestProofs.cex_rest_hook_fault = (None, true, true, (true, false, true, true), false, None).
Proof. exact RestProofs.C05_rest_refuted. Qed.
Print Assumptions C05_user_hook_fault_refuted.
Theorem C05_no_retry_refuted :
  RestProofs.rest_report RestProofs.cex_rest_no_retry = (None, true, true, (true, true, true, false), false, None).
Proof. exact RestProofs.C05_rest_no_retry_refuted. Qed.
Print Assumptions C05_no_retry_refuted.
Theorem C05_unstarted_refuted :
  RestProofs.rest_report RestProofs.cex_rest_unstarted = (None, true, true, (false, true, true, true), false, None).
Proof. exact RestProofs.C05_rest_unstarted_refuted. Qed.
Print Assumptions C05_unstarted_refuted.

(* ---- the same for the cron configuration (Proofs/VRestProofs.v): for every schedule function and EVERY scheduler
   configuration, at rest (Step in its select, no fire pending) no pending occurrence is due, provided the user has
   started the timer of the present store - which is necessary in every reachable rest state (VC05_unstarted_strands) -
   and the driver answers a DispatchErr with Retry (the store's Pop inside MarkAsDispatched may fail: nothing popped,
   nothing re-armed; VRestProofs.VC05_rest_no_retry_refuted is the accepted witness without it;
   VRestProofs.VC05_rest_no_due_faultfree: traces without such a failure need no driver hypothesis) *)
Theorem C05_cron_at_rest_nothing_is_due : forall nxt sc tr s,
  VSysProofs.vrun nxt sc vsys_init tr = Some s -> VRestProofs.vtimer_started tr = true ->
  VRestProofs.vtrace_disciplined tr = true ->
  vs_pc s = PSelect -> tm_pending (cr_timer (vs_cron s)) = false ->
  forall p, In p (cr_pending (vs_cron s)) -> inst (vs_now s) < inst (t_sched (pt_task p)).
Proof. exact VRestProofs.VC05_rest_no_due. Qed.
Print Assumptions C05_cron_at_rest_nothing_is_due.

Theorem C05_cron_predicate_holds_at_rest : forall nxt sc tr pending now s,
  let tr' := (tr ++ [VDump pending now true])%list in
  VSysProofs.vrun nxt sc vsys_init tr' = Some s -> VRestProofs.vtimer_started tr' = true ->
  VRestProofs.vtrace_disciplined tr' = true ->
  tm_pending (cr_timer (vs_cron s)) = false ->
  vc05_ok tr' = true.
Proof. exact VRestProofs.VC05_predicate_at_rest. Qed.
Print Assumptions C05_cron_predicate_holds_at_rest.

(* ================= liveness in the model (Proofs/LiveProofs.v, Proofs/VLiveProofs.v) =================
   "every scheduled task whose time has come is dispatched after finitely many steps". Hook-timer configuration: *)

(* from EVERY reachable state (whatever faults and user operations led there) the driver and the workers alone -
   fault-free Step / Retry calls, fires, work starts and ends; no user operation, no clock advance - come to rest, by
   the computable continuation [fst (drive (mu s) s)], within [mu s] labels *)
Theorem C05_quiescence_reachable : forall tr s,
  SysProofs.srun sys_init tr = Some s -> SysProofs.srun_ok sys_init tr ->
  exists q s', Forall LiveProofs.driver_label q
    /\ SysProofs.srun s q = Some s' /\ SysProofs.srun sys_init (tr ++ q) = Some s' /\ SysProofs.srun_ok sys_init (tr ++ q)
    /\ LiveProofs.at_rest s' /\ (List.length q <= LiveProofs.mu s)%nat /\ sy_now s' = sy_now s
    /\ (RestProofs.trace_disciplined tr = true -> RestProofs.trace_disciplined (tr ++ q) = true)
    /\ (RestProofs.no_user_hook_fault tr = true -> RestProofs.no_user_hook_fault (tr ++ q) = true)
    /\ (RestProofs.timer_started_first tr = true -> RestProofs.timer_started_first (tr ++ q) = true).
Proof. exact LiveProofs.C05_quiescence_reachable. Qed.
Print Assumptions C05_quiescence_reachable.

(* not only that continuation: EVERY fault-free schedule of driver and worker labels is bounded by the measure, and
   where it stops short of rest a further driver label is accepted - every maximal one ends at rest (no deadlock) *)
Theorem C05_every_schedule_terminates : forall tr s q s',
  SysProofs.srun sys_init tr = Some s -> SysProofs.srun_ok sys_init tr ->
  Forall LiveProofs.driver_label q -> SysProofs.srun s q = Some s' ->
  (List.length q + LiveProofs.mu s' <= LiveProofs.mu s)%nat
  /\ (LiveProofs.at_rest s' \/ exists l s'', LiveProofs.driver_label l /\ SysProofs.sstepf s' l = Some s'' /\ RestProofs.disc s' l).
Proof. exact LiveProofs.C05_every_schedule_terminates. Qed.
Print Assumptions C05_every_schedule_terminates.

(* ... and then every task that was scheduled and due is stored as dispatched, done or failed, and nothing due is
   left (with the hypotheses of the rest-state theorem, each necessary: C05_liveness_hypotheses_needed) *)
Theorem C05_every_due_task_is_dispatched : forall tr s,
  SysProofs.srun sys_init tr = Some s -> SysProofs.srun_ok sys_init tr ->
  RestProofs.timer_started_first tr = true -> RestProofs.no_user_hook_fault tr = true ->
  RestProofs.trace_disciplined tr = true ->
  exists q s', Forall LiveProofs.driver_label q
    /\ SysProofs.srun sys_init (tr ++ q) = Some s' /\ SysProofs.srun_ok sys_init (tr ++ q)
    /\ LiveProofs.at_rest s' /\ sy_now s' = sy_now s /\ (List.length q <= LiveProofs.mu s)%nat
    /\ (forall t, In t (SysProofs.repo_of s') -> t_state t = Scheduled -> inst (sy_now s') < inst (t_sched t))
    /\ (forall t, In t (SysProofs.repo_of s) -> t_state t = Scheduled -> inst (t_sched t) <= inst (sy_now s) ->
        exists t', lookup (t_id t) (SysProofs.repo_of s') = Some t' /\ t_sched t' = t_sched t
                   /\ (t_state t' = Dispatched \/ t_state t' = Done \/ t_state t' = Err)).
Proof. exact LiveProofs.C05_every_due_task_is_dispatched. Qed.
Print Assumptions C05_every_due_task_is_dispatched.

(* cron configuration: in every reachable state that is not at rest the driver has an accepted next label (every
   schedule function, every scheduler configuration) ... *)
Theorem C05_cron_no_deadlock : forall nxt sc tr s,
  VSysProofs.vrun nxt sc vsys_init tr = Some s -> VLiveProofs.at_rest s = false ->
  exists l s', VLiveProofs.next_driver_label nxt s = Some l /\ VLiveProofs.driver_label l = true
               /\ vsys_step nxt sc s l = Some s'.
Proof. exact VLiveProofs.VC05_no_deadlock. Qed.
Print Assumptions C05_cron_no_deadlock.

(* ... and comes to rest with every occurrence that was due served (catch-up occurrences included), provided the
   schedule moves strictly forward and no pending row carries schedule-at-now; the driver of tr must have been in order
   (vdriver_ok: every DispatchErr answered by Retry, or no Pop inside MarkAsDispatched failed); the continuation q
   itself answers a DispatchErr with Retry(DispatchErr), which finds the task again and dispatches it *)
Theorem C05_cron_every_due_occurrence_is_served : forall nxt sc tr s,
  (forall e t, inst t < inst (nxt e t)) ->
  VSysProofs.vrun nxt sc vsys_init tr = Some s -> VRestProofs.vtimer_started tr = true ->
  VRestProofs.vdriver_ok tr = true ->
  (forall p, In p (cr_pending (vs_cron s)) -> existsb VLiveProofs.is_now (pt_muts p) = false) ->
  exists q s', VLiveProofs.driver_only q = true /\ VSysProofs.vrun nxt sc vsys_init (tr ++ q) = Some s'
               /\ vs_pc s' = PSelect /\ tm_pending (cr_timer (vs_cron s')) = false
               /\ vs_results s' = [] /\ vs_accepted s' = [] /\ vs_running s' = [] /\ vs_now s' = vs_now s
               /\ (forall p, In p (cr_pending (vs_cron s')) -> inst (vs_now s') < inst (t_sched (pt_task p)))
               /\ (forall p, In p (cr_pending (vs_cron s)) -> inst (t_sched (pt_task p)) <= inst (vs_now s) ->
                             forall p', In p' (cr_pending (vs_cron s')) -> pt_ins p' <> pt_ins p).
Proof. exact VLiveProofs.VC05_every_due_occurrence_is_served_strict. Qed.
Print Assumptions C05_cron_every_due_occurrence_is_served.

(* both hypotheses are needed: with a schedule-at-now row (under a frozen clock) no driver-only continuation of a
   driver that is in order ever rests - which is why the cron pipeline suite excludes such rows.  (A driver that
   answers a failed Pop's DispatchErr with Step does come to "rest", stranded with the head due:
   VLiveProofs.VC05_spin_stranded.) *)
Theorem C05_cron_schedule_at_now_never_rests :
  (forall e t, inst t + 60000000000 <= inst (VSysProofs.ex_nxt e t))
  /\ VSysProofs.vrun VSysProofs.ex_nxt scfg_fixed vsys_init VLiveProofs.tr_now = Some VLiveProofs.s_now
  /\ VRestProofs.vtimer_started VLiveProofs.tr_now = true
  /\ map (fun p => pt_muts p) (cr_pending (vs_cron VLiveProofs.s_now)) = [[MNow]]
  /\ forall q s', VLiveProofs.driver_only q = true -> VRestProofs.vdriver_ok q = true ->
       VSysProofs.vrun VSysProofs.ex_nxt scfg_fixed VLiveProofs.s_now q = Some s' -> VLiveProofs.at_rest s' = false.
Proof. exact VLiveProofs.VC05_quiescence_refuted_schedule_at_now. Qed.
Print Assumptions C05_cron_schedule_at_now_never_rests.
