(* Props/C05.v — Every due task is eventually dispatched: no lost or stranded wake-up. *)
From GK Require Import SysCheck.
From GK.Proofs Require Import SysSmall.

(* a consumed fire is never simply lost: either a task is announced, or the scheduler records that the timer
   has to be restarted (the next Step stops and starts it again) *)
Theorem C05_stale_fire_forces_restart : forall hc s f hf r s' next,
  sy_pc s = PFire2 next ->
  sys_step scfg_fixed hc s (LCall CNextSched f hf r) = Some s' ->
  sy_last s' = None -> sy_err s' = true.
Proof. exact stale_fire_forces_restart. Qed.
Print Assumptions C05_stale_fire_forces_restart.

(* the defect that was repaired: with the pinned hook a postponed head leaves the cache stale (then a dispatch
   of the real head re-arms nothing); the repaired hook tracks the new head on the same history *)
Theorem C05_pinned_hook_refuted :
  omap t_id (hk_cached (hs_hook (hrun hcfg_pinned strand_history))) = Some "t1"
  /\ omap t_id (get_next (hs_repo (hrun hcfg_pinned strand_history))) = Some "t2"
  /\ omap t_id (hk_cached (hs_hook (hrun hcfg_fixed strand_history))) = Some "t2".
Proof. exact pinned_hook_goes_stale. Qed.
Print Assumptions C05_pinned_hook_refuted.

(* ---- the safety half over all sequential histories of the observable repository (Proofs/HookProofs.v):
   whenever the timer is started and no look-up error is pending, a wake-up is pending or armed not later than
   the head's time — the scheduler cannot be left waiting on an idle timer while a task is due ---- *)
From GK.Proofs Require Import HookProofs.
Theorem C05_never_idle_with_work : forall now0 ops,
  hops_ok now0 hs_init ops -> c07_ok (started_of ops) (hobs_of (hrun ops)) = true.
Proof. exact hrun_c07. Qed.
Print Assumptions C05_never_idle_with_work.
