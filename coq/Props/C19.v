(* Props/C19.v — No mutable state is shared across the API boundary.
   The specification is a function of VALUES (Coq terms are immutable), so it cannot observe a later
   mutation of an argument or a result: non-interference holds of the model by construction. What has
   to be shown is that the implementation behaves like that model while the client scribbles over every
   map it passed in or got back — that is the correspondence run with --scribble. The theorem below
   makes the detector p_C19 sound: the model never manufactures the scribble marker, so a marked map
   coming out of the implementation can only be an aliased one. *)
From GK Require Import PropCheck.
From GK.Proofs Require Import BaseLemmas RepoProofs RecoverProofs.
From GK.Proofs Require PredProofs RepoProofs2.

Theorem C19_model_never_marked : forall c s o, Forall unmarked s -> op_unmarked o ->
  Forall unmarked (fst (step c s o)) /\ Forall unmarked (res_tasks (snd (step c s o))).
Proof. exact step_unmarked. Qed.
Print Assumptions C19_model_never_marked.

(* executable form: the detector p_C19 stays silent on the model's own observation of every step from an unmarked
   state (and only then: a marked state makes it fire - PredProofs.model_obs_C19_unrestricted_refuted) *)
Theorem C19_model_satisfies_predicate : forall (c : cfg) (s : repo) (o : op),
  RepoProofs.wf_repo s -> RepoProofs.op_ok s o -> Forall unmarked s -> op_unmarked o ->
  p_C19 c s o (RepoProofs2.model_obs c s o) = true.
Proof. exact PredProofs.model_obs_C19. Qed.
Print Assumptions C19_model_satisfies_predicate.
