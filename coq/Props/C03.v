(* Props/C03.v — No task starts before its scheduled time.
   Model: Sys.v (the whole pipeline as a monitor over call-boundary labels). Recorded finding F9b: a task
   postponed between the Step that announces it and the Step that dispatches it (see known_findings.json);
   the statements below are what holds of the repaired scheduler. *)
From GK Require Import SysCheck.
From GK.Proofs Require Import SysSmall.

(* Step announces (sets lastTask to) a task only if its scheduled time is not after the clock reading *)
Theorem C03_announce_only_due : forall hc s f hf r s' next t,
  sy_pc s = PFire2 next ->
  sys_step scfg_fixed hc s (LCall CNextSched f hf r) = Some s' ->
  sy_last s' = Some t -> t = next /\ inst (t_sched t) <= inst (sy_now s).
Proof. exact announce_only_due. Qed.
Print Assumptions C03_announce_only_due.

(* the clock of the model never goes backwards *)
Theorem C03_time_monotone : forall sc hc s n s',
  sys_step sc hc s (LAdvance n) = Some s' -> inst (sy_now s) <= inst n /\ sy_now s' = n.
Proof. exact advance_monotone. Qed.
Print Assumptions C03_time_monotone.

(* a work function starts at the model's current time, for exactly the task the fetcher read *)
Theorem C03_start_reads_fetched_task : forall sc hc s id n snap s',
  sys_step sc hc s (LWorkStart id n snap) = Some s' ->
  exists t, find (fun x => String.eqb (fst x) id) (sy_accepted s) = Some (id, t) /\ snap = t /\ n = sy_now s
            /\ sy_accepted s' = remove_first id (sy_accepted s)
            /\ sy_starts s' = (id, n, snap) :: sy_starts s.
Proof. exact start_requires_accept. Qed.
Print Assumptions C03_start_reads_fetched_task.
