(* Props/C03.v — No task starts before its scheduled time.
   Model: Sys.v (the whole pipeline as a monitor over call-boundary labels). Recorded finding F9b: a task
   postponed between the Step that announces it and the Step that dispatches it (see known_findings.json);
   the statements below are what holds of the repaired scheduler. *)
From GK Require Import SysCheck.
From GK.Proofs Require Import SysSmall.
From GK Require Import VSys.
From GK.Proofs Require VSysProofs.

(* Step announces (sets lastTask to) a task only if its scheduled time is not after the clock reading *)
Theorem C03_announce_only_due : forall hc s f hf r s' next t,
  sy_pc s = PFire2 next ->
  sys_step scfg_fixed hc s (LCall CNextSched f hf r) = Some s' ->
  sy_last s' = Some t -> t = next /\ inst (t_sched t) <= inst (sy_now s).
Proof. exact announce_only_due. Qed.
Print Assumptions C03_announce_only_due.

(* the clock of the model never goes backwards *)
Theorem C03_time_monotone : forall sc hc s n s',
  sys_step sc hc s (LAdvance n) = Some s' -> inst (sy_now s) <= inst n /\ sy_now s' = n.
Proof. exact advance_monotone. Qed.
Print Assumptions C03_time_monotone.

(* a work function starts at the model's current time, for exactly the task the fetcher read *)
Theorem C03_start_reads_fetched_task : forall sc hc s id n snap s',
  sys_step sc hc s (LWorkStart id n snap) = Some s' ->
  exists t, find (fun x => String.eqb (fst x) id) (sy_accepted s) = Some (id, t) /\ snap = t /\ n = sy_now s
            /\ sy_accepted s' = remove_first id (sy_accepted s)
            /\ sy_starts s' = (id, n, snap) :: sy_starts s.
Proof. exact start_requires_accept. Qed.
Print Assumptions C03_start_reads_fetched_task.

(* ---- over all reachable states (Proofs/SysProofs.v) ---- *)
From GK.Proofs Require Import SysProofs.

(* THE property, under the hypotheses that exclude the recorded finding F9b (no successful UpdateById of a
   task's scheduled time between the scheduler's read of that task and its MarkAsDispatched): every accepted
   trace of the repaired pipeline — any interleaving of user mutations, clock advances, faults, Step and Retry —
   has no work-function start before the task's scheduled time *)
Theorem C03_no_early_start : forall tr s,
  srun sys_init tr = Some s -> srun_ok sys_init tr ->
  postponed_in_window tr None [] = [] -> no_postpone_retry None tr -> c03_ok tr = true.
Proof. exact c03_holds. Qed.
Print Assumptions C03_no_early_start.

(* the full statement is FALSE of the faithful model: the finding, as a replayable witness *)
Definition C03_full : Prop := forall tr s, srun sys_init tr = Some s -> srun_ok sys_init tr -> c03_ok tr = true.
Theorem C03_refuted : ~ C03_full.
Proof.
  intros H. destruct cex_retry_window_accepted as (_ & Hs & _ & Hv & _).
  destruct (srun sys_init cex_retry_window) as [s|] eqn:E; [|discriminate Hs].
  rewrite (H _ s E cex_retry_window_ok) in Hv. discriminate.
Qed.
Print Assumptions C03_refuted.

Theorem C03_clock_monotone_runs : forall tr s s', srun s tr = Some s' -> inst (sy_now s) <= inst (sy_now s').
Proof. exact now_monotone. Qed.
Print Assumptions C03_clock_monotone_runs.

(* ---- second configuration: Scheduler over NewVolatileTaskRepo(CronStore) (model VSys.v) ----
   No operation postpones a pending occurrence there, so the property holds with no exception: for every schedule
   function, every accepted trace, whenever Step checks the clock. *)
Theorem C03_cron_no_early_start : forall nxt sc tr s,
  sc_clock_check sc = true -> VSysProofs.vrun nxt sc vsys_init tr = Some s ->
  forall id n snap, In (id, n, snap) (vs_starts s) -> inst (t_sched snap) <= inst n.
Proof. exact VSysProofs.VC03_no_early_start. Qed.
Print Assumptions C03_cron_no_early_start.

(* ... hence the predicate the check evaluates on observed traces holds of every trace the model accepts *)
Theorem C03_cron_predicate_holds : forall nxt sc tr s,
  sc_clock_check sc = true -> VSysProofs.vrun nxt sc vsys_init tr = Some s -> vc03_ok tr = true.
Proof. exact VSysProofs.VC03_predicate_holds. Qed.
Print Assumptions C03_cron_predicate_holds.

(* the pinned scheduler (no clock check) starts a cron task an hour early: witness trace, rejected by the repaired model *)
Theorem C03_cron_pinned_refuted :
  exists s, VSysProofs.vrun VSysProofs.ex_nxt scfg_pinned vsys_init VSysProofs.ex_trace2 = Some s
            /\ vs_starts s = [("B", VSysProofs.ex_t1, VSysProofs.ex_obs2)]
            /\ inst VSysProofs.ex_t1 < inst (t_sched VSysProofs.ex_obs2)
            /\ vc03_ok VSysProofs.ex_trace2 = false
            /\ vsys_check VSysProofs.ex_nxt scfg_fixed vsys_init VSysProofs.ex_trace2 0 = Some 10%nat.
Proof. exact VSysProofs.VC03_pinned_refuted. Qed.
Print Assumptions C03_cron_pinned_refuted.

(* non-vacuity: an accepted trace of this configuration with a work-function start *)
Example C03_cron_nonvacuous := VSysProofs.V_nonvacuous.

(* ---- finer than the property's quantifier: a cron edit BETWEEN the Peek and the Pop that one
   volatileTaskRepo.MarkAsDispatched issues (model VSplit.v: VSys.v plus the label XSplitMark) ----
   The property holds there too, for every schedule function and every accepted extended trace. *)
From GK Require Import VSplit.
From GK.Proofs Require VSplitProofs.
Theorem C03_cron_split_no_early_start : forall nxt sc tr s,
  sc_clock_check sc = true -> xrun nxt sc vsys_init tr = Some s ->
  forall id n snap, In (id, n, snap) (vs_starts s) -> inst (t_sched snap) <= inst n.
Proof. exact VSplitProofs.XC03_no_early_start. Qed.
Print Assumptions C03_cron_split_no_early_start.

Theorem C03_cron_split_predicate_holds : forall nxt sc tr s,
  sc_clock_check sc = true -> xrun nxt sc vsys_init tr = Some s -> vc03_ok (xplain tr) = true.
Proof. exact VSplitProofs.XC03_predicate_holds. Qed.
Print Assumptions C03_cron_split_predicate_holds.

(* the extension is conservative: without the new label the extended monitor is VSys.v's *)
Theorem C03_cron_split_conservative : forall nxt sc tr s,
  xrun nxt sc s (map XL tr) = VSysProofs.vrun nxt sc s tr.
Proof. exact VSplitProofs.X_conservative. Qed.
Print Assumptions C03_cron_split_conservative.

(* the split call leaves the volatile repository's record, the acceptances and the starts alone: the fetcher's GetById
   still returns the announced task *)
Theorem C03_cron_split_keeps_record : forall nxt sc s now id rm ad ok r s',
  xsys_step nxt sc s (XSplitMark now id rm ad ok r) = Some s' ->
  vs_record s' = vs_record s /\ vs_starts s' = vs_starts s /\ vs_accepted s' = vs_accepted s /\ vs_ids s' = vs_ids s.
Proof. exact VSplitProofs.X_split_keeps_record. Qed.
Print Assumptions C03_cron_split_keeps_record.

(* non-vacuity and observation O4: an accepted extended trace with one split call, in which Pop discards a not yet due
   occurrence of ANOTHER entry while the task of the removed entry still starts (at its own time) *)
Example C03_cron_split_nonvacuous := VSplitProofs.X_split_discards_an_occurrence.
