(* Props/C04.v — A task runs at most once and never after it was cancelled or finished. *)
From GK Require Import SysCheck.
From GK.Proofs Require Import SysSmall.
From GK Require Import VSys.
From GK.Proofs Require VSysProofs.

(* a start consumes an acceptance by a worker: without a fresh acceptance there is no second start *)
Theorem C04_start_consumes_acceptance : forall sc hc s id n snap s',
  sys_step sc hc s (LWorkStart id n snap) = Some s' ->
  exists t, find (fun x => String.eqb (fst x) id) (sy_accepted s) = Some (id, t) /\ snap = t /\ n = sy_now s
            /\ sy_accepted s' = remove_first id (sy_accepted s)
            /\ sy_starts s' = (id, n, snap) :: sy_starts s.
Proof. exact start_requires_accept. Qed.
Print Assumptions C04_start_consumes_acceptance.

(* ---- over all reachable states of the repaired pipeline (Proofs/SysProofs.v): any interleaving of user
   mutations, clock advances, injected faults, Step and Retry (driver discipline: Retry gets the error state
   just returned; fresh ids) ---- *)
From GK.Proofs Require Import SysProofs.

(* a work function is invoked at most once per task *)
Theorem C04_at_most_once : forall s, reachable s -> NoDup (map (fun x => fst (fst x)) (sy_starts s)).
Proof. exact starts_nodup. Qed.
Print Assumptions C04_at_most_once.

(* only a task that is stored as dispatched (the scheduler moved it for this run), and never twice *)
Theorem C04_only_dispatched : forall s id n snap s',
  reachable s -> sstepf s (LWorkStart id n snap) = Some s' ->
  t_state snap = Dispatched /\ lookup id (repo_of s) = Some snap /\ t_id snap = id /\ n = sy_now s
  /\ ~ In id (start_ids s).
Proof. exact start_dispatched. Qed.
Print Assumptions C04_only_dispatched.

(* a task whose cancellation succeeded is never run afterwards, whatever follows (Retry included) *)
Theorem C04_never_after_cancel : forall s f n id s1 tr s2 n' snap,
  reachable s -> sstepf s (LUser (HCancel f n id) ROk) = Some s1 ->
  srun s1 tr = Some s2 -> srun_ok s1 tr -> sstepf s2 (LWorkStart id n' snap) = None.
Proof. exact no_start_after_cancel. Qed.
Print Assumptions C04_never_after_cancel.

(* executable form: the predicate the check evaluates on the real pipeline holds of every accepted trace *)
Theorem C04_predicate_holds : forall tr s, srun sys_init tr = Some s -> srun_ok sys_init tr -> c04_ok tr = true.
Proof. exact c04_holds. Qed.
Print Assumptions C04_predicate_holds.

(* ---- second configuration: Scheduler over NewVolatileTaskRepo(CronStore) (model VSys.v) ----
   for every schedule function, every scheduler configuration and every accepted trace no id starts twice *)
Theorem C04_cron_at_most_once : forall nxt sc tr s,
  VSysProofs.vrun nxt sc vsys_init tr = Some s -> NoDup (map (fun x => fst (fst x)) (vs_starts s)).
Proof. exact VSysProofs.VC04_at_most_once. Qed.
Print Assumptions C04_cron_at_most_once.

(* the predicate evaluated on observed traces holds of every accepted trace that creates the store once, first
   (the harness' traces do); with a second store the id book-keeping restarts: VSysProofs.V_two_stores_same_id *)
Theorem C04_cron_predicate_holds : forall nxt sc tr s,
  VSysProofs.vrun nxt sc vsys_init tr = Some s -> existsb VSysProofs.is_new (tl tr) = false -> vc04_ok tr = true.
Proof. exact VSysProofs.VC04_predicate_holds. Qed.
Print Assumptions C04_cron_predicate_holds.

(* ---- finer than the property's quantifier: a cron edit BETWEEN the Peek and the Pop that one
   volatileTaskRepo.MarkAsDispatched issues (model VSplit.v).  There the FULL statement is false of the faithful model
   (recorded finding F21, reproduced on the implementation by suite c04-vsys-split): an edit that ADDS an entry whose
   first occurrence sorts before the head the Peek has just seen makes Pop remove that occurrence instead; the announced
   task runs, its own occurrence stays pending, is announced again under the same id and runs a second time. *)
From GK Require Import VSplit.
From GK.Proofs Require VSplitProofs VSplitProofs2.

Definition C04_cron_split_full : Prop := forall nxt sc tr s,
  xrun nxt sc vsys_init tr = Some s -> NoDup (map (fun x => fst (fst x)) (vs_starts s)).

Theorem C04_cron_split_refuted :
  exists tr s, xrun VSysProofs.ex_nxt scfg_fixed vsys_init tr = Some s /\ xsplits tr = 1%nat
    /\ map (fun x => fst (fst x)) (vs_starts s) = ["A"; "A"]
    /\ ~ NoDup (map (fun x => fst (fst x)) (vs_starts s))
    /\ existsb VSysProofs.is_new (tl (xplain tr)) = false
    /\ vc04_ok (xplain tr) = false /\ vc03_ok (xplain tr) = true
    /\ VSplitProofs2.xsafe VSysProofs.ex_nxt scfg_fixed vsys_init tr = false
    /\ xsys_check VSysProofs.ex_nxt scfg_pinned vsys_init tr 0 = None.
Proof. exact VSplitProofs2.XC04_at_most_once_refuted. Qed.
Print Assumptions C04_cron_split_refuted.

Theorem C04_cron_split_full_refuted : ~ C04_cron_split_full.
Proof.
  intros H. destruct VSplitProofs2.XC04_at_most_once_refuted as (tr & s & Hr & _ & _ & Hn & _).
  exact (Hn (H _ _ _ _ Hr)).
Qed.
Print Assumptions C04_cron_split_full_refuted.

(* what holds (..._partial): no id starts twice in any accepted extended trace all of whose split calls leave the
   announced occurrence no longer pending (the edit removed its entry, or the Pop took it) - [xsafe] is computable and
   is evaluated on the model's run of the observed trace by the signature of F21 *)
Theorem C04_cron_split_at_most_once_partial : forall nxt sc tr s,
  xrun nxt sc vsys_init tr = Some s -> VSplitProofs2.xsafe nxt sc vsys_init tr = true ->
  NoDup (map (fun x => fst (fst x)) (vs_starts s)).
Proof. exact VSplitProofs2.XC04_at_most_once_safe. Qed.
Print Assumptions C04_cron_split_at_most_once_partial.

Theorem C04_cron_split_predicate_partial : forall nxt sc tr s,
  xrun nxt sc vsys_init tr = Some s -> VSplitProofs2.xsafe nxt sc vsys_init tr = true ->
  existsb VSysProofs.is_new (tl (xplain tr)) = false -> vc04_ok (xplain tr) = true.
Proof. exact VSplitProofs2.XC04_predicate_holds_safe. Qed.
Print Assumptions C04_cron_split_predicate_partial.
