(* Props/C04.v — A task runs at most once and never after it was cancelled or finished. *)
From GK Require Import SysCheck.
From GK.Proofs Require Import SysSmall.

(* a start consumes an acceptance by a worker: without a fresh acceptance there is no second start *)
Theorem C04_start_consumes_acceptance : forall sc hc s id n snap s',
  sys_step sc hc s (LWorkStart id n snap) = Some s' ->
  exists t, find (fun x => String.eqb (fst x) id) (sy_accepted s) = Some (id, t) /\ snap = t /\ n = sy_now s
            /\ sy_accepted s' = remove_first id (sy_accepted s)
            /\ sy_starts s' = (id, n, snap) :: sy_starts s.
Proof. exact start_requires_accept. Qed.
Print Assumptions C04_start_consumes_acceptance.
