(* Props/C06.v — Outcomes are recorded faithfully and exactly once. *)
From GK Require Import SysCheck.
From GK.Proofs Require Import SysSmall.

(* Step's result branch takes the OLDEST queued result, calls MarkAsDone for exactly that task with exactly
   that outcome's error text, removes it from the queue and reports it *)
Theorem C06_result_consumed_once : forall sc hc s id e f hf r s',
  sy_pc s = PSelect ->
  sys_step sc hc s (LCall (CMarkDone id e) f hf r) = Some s' ->
  exists o rest, sy_results s = (id, o) :: rest /\ sy_results s' = rest /\ o <> OCanceled
                 /\ e = outcome_err o
                 /\ sy_pc s' = PEnd (STaskDone id o (is_err_res (snd (call_mark_done f (sy_now s) id e (sy_h s))))) false.
Proof. exact result_consumed_once. Qed.
Print Assumptions C06_result_consumed_once.

(* a run that ended only because the dispatcher was cancelled is reported without any repository call:
   the task stays dispatched (recoverable) and is never marked done *)
Theorem C06_cancelled_run_not_marked : forall sc hc s id re s',
  sy_pc s = PSelect ->
  sys_step sc hc s (LStepEnd (STaskDone id OCanceled false) re) = Some s' ->
  sy_h s' = sy_h s /\ exists rest, sy_results s = (id, OCanceled) :: rest /\ sy_results s' = rest.
Proof. exact cancelled_run_not_marked. Qed.
Print Assumptions C06_cancelled_run_not_marked.
