(* Props/C06.v — Outcomes are recorded faithfully and exactly once. *)
From GK Require Import SysCheck.
From GK.Proofs Require Import SysSmall.
From GK.Proofs Require SysProofs RestProofs RestProofs2.

(* Step's result branch takes the OLDEST queued result, calls MarkAsDone for exactly that task with exactly
   that outcome's error text, removes it from the queue and reports it *)
Theorem C06_result_consumed_once : forall sc hc s id e f hf r s',
  sy_pc s = PSelect ->
  sys_step sc hc s (LCall (CMarkDone id e) f hf r) = Some s' ->
  exists o rest, sy_results s = (id, o) :: rest /\ sy_results s' = rest /\ o <> OCanceled
                 /\ e = outcome_err o
                 /\ sy_pc s' = PEnd (STaskDone id o (is_err_res (snd (call_mark_done f (sy_now s) id e (sy_h s))))) false.
Proof. exact result_consumed_once. Qed.
Print Assumptions C06_result_consumed_once.

(* a run that ended only because the dispatcher was cancelled is reported without any repository call:
   the task stays dispatched (recoverable) and is never marked done *)
Theorem C06_cancelled_run_not_marked : forall sc hc s id re s',
  sy_pc s = PSelect ->
  sys_step sc hc s (LStepEnd (STaskDone id OCanceled false) re) = Some s' ->
  sy_h s' = sy_h s /\ exists rest, sy_results s = (id, OCanceled) :: rest /\ sy_results s' = rest.
Proof. exact cancelled_run_not_marked. Qed.
Print Assumptions C06_cancelled_run_not_marked.

(* ---- over all reachable states (Proofs/SysProofs.v) ---- *)
From GK.Proofs Require Import SysProofs.

(* a successful MarkAsDone of the result branch records exactly the outcome: done for nil; err with the error
   text for an error, a panic, an unknown work id *)
Theorem C06_mark_done_records : forall s id e hf s',
  reachable s -> sy_pc s = PSelect ->
  sstepf s (LCall (CMarkDone id e) FNone hf (RRes ROk)) = Some s' ->
  exists o rest t', sy_results s = (id, o) :: rest /\ sy_results s' = rest /\ o <> OCanceled
    /\ lookup id (repo_of s') = Some t' /\ outcome_recorded o t' = true
    /\ (o = ONil -> t_state t' = Done)
    /\ (forall x, o <> ONil -> outcome_err o = Some x -> t_state t' = Err /\ t_err t' = x)
    /\ sy_pc s' = PEnd (STaskDone id o false) false.
Proof. exact mark_done_records. Qed.
Print Assumptions C06_mark_done_records.

(* ... and the record never changes afterwards *)
Theorem C06_record_is_final : forall s id e hf s1 tr s2,
  reachable s -> sy_pc s = PSelect ->
  sstepf s (LCall (CMarkDone id e) FNone hf (RRes ROk)) = Some s1 ->
  srun s1 tr = Some s2 -> srun_ok s1 tr ->
  exists o rest t', sy_results s = (id, o) :: rest /\ o <> OCanceled
    /\ lookup id (repo_of s2) = Some t' /\ outcome_recorded o t' = true.
Proof. exact mark_done_final. Qed.
Print Assumptions C06_record_is_final.

(* a run ended only by cancellation of the dispatcher: reported, left dispatched, never marked *)
Theorem C06_cancelled_left_dispatched : forall s id s',
  reachable s -> sy_pc s = PSelect ->
  sstepf s (LStepEnd (STaskDone id OCanceled false) false) = Some s' ->
  exists rest t, sy_results s = (id, OCanceled) :: rest /\ sy_results s' = rest /\ repo_of s' = repo_of s
    /\ lookup id (repo_of s') = Some t /\ t_state t = Dispatched
    /\ sy_reports s' = id :: sy_reports s /\ sy_pc s' = PIdle.
Proof. exact canceled_reported. Qed.
Print Assumptions C06_cancelled_left_dispatched.

(* exactly once: a reported run is never queued, accepted or running again *)
Theorem C06_reported_once : forall tr s s' id,
  SysInv s -> srun s tr = Some s' -> srun_ok s tr -> In id (ended s) ->
  In id (ended s') /\ ~ In id (res_ids s') /\ ~ In id (acc_ids s') /\ ~ In id (sy_running s').
Proof. exact reported_once. Qed.
Print Assumptions C06_reported_once.

(* ---- the predicate the check evaluates at quiescence (every finished run recorded with its outcome, reported
   exactly once) holds of every accepted trace that ends with the dump and has no result queued, whatever faults hit
   the other calls; a fault at MarkAsDone itself that the driver does not retry leaves the task dispatched
   (C06_markdone_fault_refuted: the hypothesis is needed as stated; the weaker "update errors are retried" is open) *)
Theorem C06_predicate_holds_at_rest : forall tr dump now s,
  let tr' := (tr ++ [LDump dump now true])%list in
  SysProofs.srun sys_init tr' = Some s -> SysProofs.srun_ok sys_init tr' ->
  RestProofs.no_markdone_fault tr' = true -> sy_results s = [] ->
  c06_ok tr' = true.
Proof. exact RestProofs.C06_predicate_at_rest. Qed.
Print Assumptions C06_predicate_holds_at_rest.

Theorem C06_markdone_fault_refuted :
  sys_check scfg_fixed hcfg_fixed sys_init RestProofs.cex_c06_fault 0 = None
  /\ omap RestProofs.at_rest_b (SysProofs.srun sys_init RestProofs.cex_c06_fault) = Some true
  /\ RestProofs.no_markdone_fault RestProofs.cex_c06_fault = false
  /\ c06_ok RestProofs.cex_c06_fault = false.
Proof. exact RestProofs.C06_rest_refuted. Qed.
Print Assumptions C06_markdone_fault_refuted.

(* ... and with faults at MarkAsDone itself allowed, as long as the driver answers a TaskDone that carries an update
   error with Retry (the property's premise) and the trace ends at rest (Proofs/RestProofs2.v) *)
Theorem C06_predicate_holds_at_rest_when_retried : forall tr dump now s,
  let tr' := (tr ++ [LDump dump now true])%list in
  SysProofs.srun sys_init tr' = Some s -> SysProofs.srun_ok sys_init tr' ->
  RestProofs2.taskdone_err_retried false tr' = true -> sy_results s = [] ->
  c06_ok tr' = true.
Proof. exact RestProofs2.C06_predicate_at_rest_retried. Qed.
Print Assumptions C06_predicate_holds_at_rest_when_retried.
