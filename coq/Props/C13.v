(* Props/C13.v — Crash recovery on the SQL repository (sequential part: what RevertDispatched and
   CancelDispatched do). PARTIAL: durability and atomicity of one SQL statement are SQLite's; the model
   takes each acknowledged operation as one transition and the harness checks that with process kills. *)
From GK Require Import PropCheck.
From GK.Proofs Require Import BaseLemmas RepoProofs RecoverProofs.
From GK.Proofs Require PredProofs RepoProofs2.
From GK Require SrcFacts.
From GK.Proofs Require SrcProofs.

(* revert: exactly the dispatched-unfinished tasks change, to scheduled with dispatched_at cleared *)
Theorem C13_revert_spec : forall id s, lookup id (map undispatch s) = omap undispatch (lookup id s).
Proof. exact lookup_map_undispatch. Qed.
Print Assumptions C13_revert_spec.
Theorem C13_revert_untouched : forall t, t_state t <> Dispatched -> undispatch t = t.
Proof. exact undispatch_other. Qed.
Print Assumptions C13_revert_untouched.
Theorem C13_revert_dispatched : forall t, t_state t = Dispatched ->
  undispatch t = mkTask (t_id t) (t_work t) (t_prio t) Scheduled (t_err t) (t_param t) (t_meta t) (t_sched t)
                        (t_created t) (t_deadline t) (t_cancelled t) None (t_done t).
Proof. exact undispatch_dispatched. Qed.
Print Assumptions C13_revert_dispatched.

(* a reverted task IS the never-dispatched task: dispatch followed by revert restores the repository
   exactly, hence it is selected, updated, cancelled, dispatched and refused by mark-as-done as before *)
Theorem C13_revert_undoes : forall c s id t now,
  wf_repo s -> (forall u, In u s -> t_state u <> Dispatched) ->
  lookup id s = Some t -> t_state t = Scheduled ->
  fst (step c (fst (step c s (ODispatch false now id))) ORevert) = s.
Proof. exact revert_undoes_dispatch. Qed.
Print Assumptions C13_revert_undoes.
Theorem C13_reverted_behaves_as_never_dispatched : forall c s id t now ops,
  wf_repo s -> (forall u, In u s -> t_state u <> Dispatched) ->
  lookup id s = Some t -> t_state t = Scheduled ->
  outputs c (fst (step c (fst (step c s (ODispatch false now id))) ORevert)) ops = outputs c s ops.
Proof. exact revert_undoes_continuation. Qed.
Print Assumptions C13_reverted_behaves_as_never_dispatched.

(* cancelling abandoned tasks turns precisely the dispatched ones into cancelled *)
Theorem C13_cancel_dispatched_spec : forall now id s,
  lookup id (map (cancel_if_dispatched now) s) = omap (cancel_if_dispatched now) (lookup id s).
Proof. exact lookup_map_cancel_dispatched. Qed.
Print Assumptions C13_cancel_dispatched_spec.
Theorem C13_cancel_dispatched_untouched : forall now t, t_state t <> Dispatched -> cancel_if_dispatched now t = t.
Proof. exact cancel_if_dispatched_other. Qed.
Print Assumptions C13_cancel_dispatched_untouched.

(* crash atomicity on the model: after a crash the state is the run of the acknowledged prefix, or of
   that prefix plus the operation in flight — each operation is one transition *)
Theorem C13_crash_atomic_model : forall c acked inflight,
  run c (acked ++ [inflight]) = fst (step c (run c acked) inflight).
Proof. intros c acked inflight. unfold run, run_from. rewrite fold_left_app. reflexivity. Qed.
Print Assumptions C13_crash_atomic_model.

Example C13_mark_as_done_refused_after_revert :
  let ops := [OAdd false (T 5 true) "t1" (mkU (Some "w") None None None (Some (T 60000000000 true)) None);
              ODispatch false (T 7000000 true) "t1"; ORevert] in
  snd (step cfg_ent (run cfg_ent ops) (ODone false (T 9000000 true) "t1" None)) = RErr ENotDispatched.
Proof. vm_compute. reflexivity. Qed.

(* executable form: the predicate evaluated on ent's observations holds of the model's own observation of every step;
   obs_next_model: the state the check rebuilds from observed diffs is the specification's next state *)
Theorem C13_model_satisfies_predicate : forall (c : cfg) (s : repo) (o : op),
  wf_repo s -> op_ok s o -> p_C13 c s o (RepoProofs2.model_obs c s o) = true.
Proof. exact PredProofs.model_obs_C13. Qed.
Print Assumptions C13_model_satisfies_predicate.
Theorem C13_observed_state_is_model_state : forall (c : cfg) (s : repo) (o : op),
  wf_repo s -> op_ok s o -> obs_next s o (RepoProofs2.model_obs c s o) = fst (step c s o).
Proof. exact PredProofs.obs_next_model. Qed.
Print Assumptions C13_observed_state_is_model_state.

(* ---- the mechanism, re-extracted from the Go source on every run (tools/go2coq -> obligation
   `rec_discipline_ok ent_recovery_facts = true`): RevertDispatched and CancelDispatched are each ONE UPDATE, guarded by
   state = dispatched, setting exactly the specification's target state, with the stamp handling the specification has
   (revert clears dispatched_at: F2; cancel stamps cancelled_at), and never read the rows first *)
Theorem C13_recovery_is_one_guarded_update : forall fs, SrcFacts.rec_discipline_ok fs = true ->
  forall n, In n SrcFacts.rec_methods ->
  exists f g y req pre, In f fs /\ SrcFacts.ef_name f = n /\ SrcFacts.rec_edge n = Some (g, y, req)
    /\ SrcFacts.prefix_to_exec (SrcFacts.ef_events f) = Some pre
    /\ ~ In SrcFacts.EvRead (SrcFacts.ef_events f)
    /\ SrcFacts.guards_of (SrcFacts.ef_events f) = [g] /\ SrcFacts.sets_of (SrcFacts.ef_events f) = [y]
    /\ (forall r, In r req -> exists e, In e pre /\ SrcFacts.ev_eqb r e = true).
Proof. exact SrcProofs.rec_discipline_meaning. Qed.
Print Assumptions C13_recovery_is_one_guarded_update.

(* the table those facts are compared with is the specification's *)
Theorem C13_recovery_table_is_the_models :
  (forall t, state_eqb (t_state t) Dispatched = true ->
     t_state (undispatch t) = Scheduled /\ t_dispatched (undispatch t) = None /\ t_cancelled (undispatch t) = t_cancelled t)
  /\ (forall t, state_eqb (t_state t) Dispatched = false -> undispatch t = t)
  /\ (forall now t, state_eqb (t_state t) Dispatched = true ->
     t_state (cancel_if_dispatched now t) = Cancelled /\ t_cancelled (cancel_if_dispatched now t) = Some (norm now))
  /\ (forall now t, state_eqb (t_state t) Dispatched = false -> cancel_if_dispatched now t = t).
Proof. exact SrcProofs.rec_edge_is_the_models. Qed.
Print Assumptions C13_recovery_table_is_the_models.
