(* VSplit.v — the cron / volatile pipeline of VSys.v at a finer granularity than the call boundaries of
   scheduler.Repository: volatileTaskRepo.MarkAsDispatched (scheduler/repository.go) issues TWO calls on the cron store,
   Peek and then Pop, each under the store's own mutex; a user's EditTask can land between them.  VSys.v has the whole
   MarkAsDispatched as one step (v_mark_disp); here one more label, XSplitMark, is the same call with a cron edit between
   its Peek and its Pop:
     - the Peek saw the asked-for id at the head (otherwise Pop is never reached and the call is an ordinary one);
     - the edit is applied to the store (accepted or rejected, exactly as a VEdit);
     - Pop then removes whatever the head is NOW - a different, possibly not yet due occurrence, which is discarded -
       or reports an exhausted store, which MarkAsDispatched returns as is (record kept);
     - volatileTaskRepo.record is not touched: the fetcher's GetById still returns the announced task.
   Every other label is VSys.v's, unchanged.  No proofs here. *)
From GK Require Export VSys.

Section WithSchedule.
  Variable nxt : nat -> gtime -> gtime.

  Inductive xlabel :=
  | XL (l : vlabel)
  | XSplitMark (now : gtime) (id : string) (removed added : list nat) (ok : bool) (r : cret).

  (* MarkAsDispatched with an edit between Peek and Pop; only meaningful when head_bound s id (Pop is reached) *)
  Definition v_mark_disp_split (s : vsys) (id : string) (removed added : list nat) : vsys * bool * res :=
    let (c1, ok) := edit nxt (vs_cron s) (vs_now s) removed added in
    match pop nxt c1 (vs_now s) with
    | (c2, Some _) => (set_vcron s c2, ok, ROk)
    | (c2, None) => (set_vcron s c2, ok, RErr EExhausted)
    end.

  Definition xsys_step (sc : scfg) (s : vsys) (l : xlabel) : option vsys :=
    match l with
    | XL l => vsys_step nxt sc s l
    | XSplitMark n id removed added ok r =>
      if gtime_eqb n (vs_now s) && head_bound s id then
        let '(s', ok', x) := v_mark_disp_split s id removed added in
        if Bool.eqb ok ok' && cret_eqb r (RRes x) then
          match vs_pc s with
          | PStepMain =>
            match vs_last s with
            | Some t =>
              if String.eqb id (t_id t)
              then Some (if is_err_res x then set_vsched s' None false (PEnd (SDispatchErr t) false)
                         else set_vsched s' None false (PDisp2 KStep t))
              else None
            | None => None
            end
          | PDisp1 k t =>
            if String.eqb id (t_id t)
            then Some (if is_err_res x then set_vpc s' (PEnd (SDispatchErr t) true) else set_vpc s' (PDisp2 k t))
            else None
          | _ => None
          end
        else None
      else None
    end.

  Fixpoint xsys_check (sc : scfg) (s : vsys) (tr : list xlabel) (i : nat) : option nat :=
    match tr with
    | [] => None
    | l :: r => match xsys_step sc s l with Some s' => xsys_check sc s' r (S i) | None => Some i end
    end.
  Fixpoint xsys_state_at (sc : scfg) (s : vsys) (tr : list xlabel) (i : nat) : vsys :=
    match i, tr with
    | O, _ => s
    | S j, l :: r => match xsys_step sc s l with Some s' => xsys_state_at sc s' r j | None => s end
    | _, [] => s
    end.
  Fixpoint xrun (sc : scfg) (s : vsys) (tr : list xlabel) : option vsys :=
    match tr with
    | [] => Some s
    | l :: r => match xsys_step sc s l with Some s' => xrun sc s' r | None => None end
    end.
End WithSchedule.

(* the ordinary labels of an extended trace (what the trace predicates of VSys.v look at) *)
Fixpoint xplain (tr : list xlabel) : list vlabel :=
  match tr with [] => [] | XL l :: r => l :: xplain r | XSplitMark _ _ _ _ _ _ :: r => xplain r end.
Fixpoint xsplits (tr : list xlabel) : nat :=
  match tr with [] => 0 | XL _ :: r => xsplits r | XSplitMark _ _ _ _ _ _ :: r => S (xsplits r) end.

Record xcase := mkXC { xc_tbl : ntable; xc_trace : list xlabel }.
Fixpoint xsys_mismatches (sc : scfg) (l : list xcase) (k : nat) : list (nat * nat) :=
  match l with
  | [] => []
  | x :: r => match xsys_check (nxt_of (xc_tbl x)) sc vsys_init (xc_trace x) 0 with
              | Some i => (k, i) :: xsys_mismatches sc r (S k)
              | None => xsys_mismatches sc r (S k)
              end
  end.
Definition xsys_expect (sc : scfg) (x : xcase) (i : nat) :=
  let s := xsys_state_at (nxt_of (xc_tbl x)) sc vsys_init (xc_trace x) i in
  (nth_error (xc_trace x) i, vs_pc s, vs_last s, vs_err s, cr_timer (vs_cron s), vs_now s,
   map (fun p => (pt_ins p, t_sched (pt_task p), t_work (pt_task p))) (cr_pending (vs_cron s)), vs_ids s,
   map fst (vs_record s), vs_results s, map fst (vs_accepted s), vs_running s).
Fixpoint xtrace_violations (p : list vlabel -> bool) (l : list xcase) (k : nat) : list (nat * nat) :=
  match l with
  | [] => []
  | x :: r => if p (xplain (xc_trace x)) then xtrace_violations p r (S k) else (k, O) :: xtrace_violations p r (S k)
  end.

(* ---- the signature of recorded finding F21 (C04 at Peek / Pop granularity): the edit ADDED an entry whose first
   occurrence sorts before the head the Peek has just seen; Pop removes that occurrence instead, MarkAsDispatched reports
   success, the announced task runs - and its own occurrence, still pending, is announced again later under the same id
   and runs a second time.  A duplicate start is excused only for the id of such a split call. *)
Section Sig.
  Variable nxt : nat -> gtime -> gtime.
  (* after the split call the occurrence that was announced under [id] is still pending *)
  Definition split_keeps_head (s : vsys) (id : string) (removed added : list nat) : bool :=
    let '(s', _, _) := v_mark_disp_split nxt s id removed added in
    existsb (fun p => match id_of (vs_ids s) (pt_ins p) with Some i => String.eqb i id | None => false end)
            (cr_pending (vs_cron s')).
  Fixpoint kept_heads (sc : scfg) (s : vsys) (tr : list xlabel) : list string :=
    match tr with
    | [] => []
    | l :: r =>
      match xsys_step nxt sc s l with
      | None => []
      | Some s' =>
        (match l with
         | XSplitMark _ id removed added _ (RRes ROk) => if split_keeps_head s id removed added then [id] else []
         | _ => []
         end) ++ kept_heads sc s' r
      end
    end.
End Sig.
Fixpoint dup_starts (seen : list string) (l : list (string * gtime * task)) : list string :=
  match l with
  | [] => []
  | (id, _, _) :: r => if str_mem id seen then id :: dup_starts seen r else dup_starts (id :: seen) r
  end.
Definition sig_F21 (sc : scfg) (x : xcase) : bool :=
  let dups := dup_starts [] (vstarts_of (xplain (xc_trace x))) in
  let kept := kept_heads (nxt_of (xc_tbl x)) sc vsys_init (xc_trace x) in
  negb (match dups with [] => true | _ => false end) && forallb (fun id => str_mem id kept) dups.
