(* Timer.v — the timer half of mockable.Clock as the harness' virtual clock implements it
   (time.Timer semantics: one-slot channel, Stop reports whether it was armed). *)
From GK Require Export Base.

Record timer := mkTimer { tm_armed : option Z; tm_pending : bool }.
Definition timer_idle : timer := mkTimer None false.

(* fire if armed and due *)
Definition tm_fire (t : timer) (now : Z) : timer :=
  match tm_armed t with
  | Some d => if d <=? now then mkTimer None true else t
  | None => t
  end.
(* the idiom `if !clock.Stop() { select { case <-clock.C(): default: } }` *)
Definition tm_stop_drain (t : timer) : timer :=
  match tm_armed t with
  | Some _ => mkTimer None (tm_pending t)
  | None => mkTimer None false
  end.
(* clock.Reset(target - now) *)
Definition tm_reset (t : timer) (target now : Z) : timer := tm_fire (mkTimer (Some target) (tm_pending t)) now.
(* a receive from the channel *)
Definition tm_consume (t : timer) : timer := mkTimer (tm_armed t) false.

Definition timer_eqb (a b : timer) : bool :=
  match tm_armed a, tm_armed b with
  | Some x, Some y => x =? y
  | None, None => true
  | _, _ => false
  end && Bool.eqb (tm_pending a) (tm_pending b).
