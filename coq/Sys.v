(* Sys.v — the whole pipeline as a monitor over labels:
     scheduler.Scheduler (Step / Retry, scheduler/scheduler.go)
   ∥ repository.Repository + MutationHookTimer over the in-memory repository (Hook.v, Repo.v, Timer.v)
   ∥ the worker-pool dispatcher (fetch in the worker, work function start / end, result queue)
   ∥ users (mutations through the wrapper) ∥ the clock ∥ injected faults.
   The atomic actions are the repository-call boundaries of the code (DESIGN.md Appendix A): every call
   the scheduler issues through scheduler.Repository is one label carrying the injected fault and the
   observed result; [sys_step] accepts a label iff it is the call the code would issue at this point
   and its result is what the model computes.  No proofs here. *)
From GK Require Export Hook.

(* variants of scheduler.go: the pinned source and the repairs (DESIGN.md F9, F7a, F8) *)
Record scfg := mkScfg {
  sc_clock_check : bool;      (* Step dispatches only a task whose time has come (F9) *)
  sc_err_on_mismatch : bool;  (* a consumed fire that does not belong to a due head forces a timer restart (F7a) *)
  sc_retry_by_state : bool    (* Retry(DispatchErr) decides from the task's present state (F8) *)
}.
Definition scfg_pinned : scfg := mkScfg false false false.
Definition scfg_fixed : scfg := mkScfg true true true.

Inductive fault := FNone | FBefore | FAfter | FBeforeHook.
  (* error without effect / error after effect / the CORE repository's MarkAsDispatched failed without effect
     and the wrapper still ran the timer hook (no life-cycle refusal); for every other call = FBefore *)
Inductive outcome := ONil | OErr (text : string) | OPanic | ONotFound | OCanceled.

Inductive scall :=
| CLtue | CStop | CStart | CTimerCh | CGetNext | CNextSched
| CMarkDisp (id : string) | CGetById (id : string) | CMarkDone (id : string) (e : option string).
Inductive cret :=
| RBool (b : bool) | RUnit | RRes (r : res) | RTime (t : option gtime).

Inductive sstate :=
| STimerUpdateError
| SAwaitingNext
| SNextTask (ok : bool) (t : option task)      (* ok = no error; t = the announced task *)
| SDispatchErr (t : task)
| SDispatched (id : string)
| STaskDone (id : string) (o : outcome) (upd_err : bool)
| SNone.                                        (* Retry had nothing to do *)

Inductive kont := KStep | KRetry.
Inductive spc :=
| PIdle
| PStep0
| PRestart1 (k : kont) | PRestart2 (k : kont) | PRestart3 (k : kont)
| PStepMain
| PSelect
| PFire1
| PFire2 (next : task)
| PDisp1 (k : kont) (t : task) | PDisp2 (k : kont) (t : task)
| PRetryDE (t : task)
| PRetryTD (id : string) (o : outcome)
| PEnd (st : sstate) (retry_err : bool).

Inductive slabel :=
| LUser (o : hop) (r : res)                       (* a user mutation through the wrapper (HAdd / HUpdate / HCancel) *)
| LAdvance (now : gtime)
| LStepBegin
| LRetryBegin (prev : sstate)
| LCall (c : scall) (f : fault) (hf : bool) (r : cret)   (* hf: the hook's nested GetNext fails *)
| LStepEnd (st : sstate) (retry_err : bool)
| LWorkStart (id : string) (now : gtime) (snap : task)   (* work function entry: clock reading, task as stored *)
| LWorkEnd (id : string) (o : outcome)                   (* work function returned; its result is queued *)
| LDump (l : list task) (now : gtime) (blocked : bool)   (* end of run: Find(all); is the driver blocked in select? *)
| LFire                                                  (* Step's select receives the pending fire *)
| LHarnessFailure (msg : string).                        (* the harness itself gave up (deadlock, time-out) *)

Record sys := mkSys {
  sy_h : hstate;                 (* repository + hook + timer *)
  sy_now : gtime;
  sy_last : option task;         (* lastTask *)
  sy_err : bool;                 (* getNextErr != nil *)
  sy_pc : spc;
  sy_accepted : list (string * task);    (* dispatched by a worker, work function not yet started *)
  sy_running : list string;
  sy_results : list (string * outcome);  (* finished, waiting in the result queue (FIFO) *)
  sy_starts : list (string * gtime * task);   (* monotone history: every work-function start *)
  sy_reports : list string;                (* monotone history: ids reported as TaskDone *)
  sy_retry : option sstate                 (* the error state the driver may hand to Retry (driver discipline) *)
}.
Definition sys_init : sys := mkSys hs_init (T 0 true) None false PIdle [] [] [] [] [] None.

Definition set_h (s : sys) (h : hstate) : sys :=
  mkSys h (sy_now s) (sy_last s) (sy_err s) (sy_pc s) (sy_accepted s) (sy_running s) (sy_results s) (sy_starts s) (sy_reports s) (sy_retry s).
Definition set_pc (s : sys) (pc : spc) : sys :=
  mkSys (sy_h s) (sy_now s) (sy_last s) (sy_err s) pc (sy_accepted s) (sy_running s) (sy_results s) (sy_starts s) (sy_reports s) (sy_retry s).
Definition set_sched (s : sys) (last : option task) (e : bool) (pc : spc) : sys :=
  mkSys (sy_h s) (sy_now s) last e pc (sy_accepted s) (sy_running s) (sy_results s) (sy_starts s) (sy_reports s) (sy_retry s).

Definition outcome_err (o : outcome) : option string :=
  match o with
  | ONil => None
  | OErr t => Some t
  | OPanic => Some "work function panicked: boom"
  | ONotFound => Some "work_id not found: work_id = nope"
  | OCanceled => Some "context canceled"
  end.
Definition outcome_eqb (a b : outcome) : bool :=
  match a, b with
  | ONil, ONil | OPanic, OPanic | ONotFound, ONotFound | OCanceled, OCanceled => true
  | OErr x, OErr y => String.eqb x y
  | _, _ => false
  end.
Definition otask_opt_eqb (a b : option task) : bool := otask_eqb a b.
Definition sstate_eqb (a b : sstate) : bool :=
  match a, b with
  | STimerUpdateError, STimerUpdateError | SAwaitingNext, SAwaitingNext | SNone, SNone => true
  | SNextTask o t, SNextTask o' t' => Bool.eqb o o' && otask_eqb t t'
  | SDispatchErr t, SDispatchErr t' => String.eqb (t_id t) (t_id t')
  | SDispatched i, SDispatched j => String.eqb i j
  | STaskDone i o u, STaskDone j o' u' => String.eqb i j && outcome_eqb o o' && Bool.eqb u u'
  | _, _ => false
  end.
Definition cret_eqb (a b : cret) : bool :=
  match a, b with
  | RBool x, RBool y => Bool.eqb x y
  | RUnit, RUnit => true
  | RRes x, RRes y => res_eqb x y
  | RTime x, RTime y => ogtime_eqb x y
  | _, _ => false
  end.

(* a repository call issued by the scheduler, with its fault: new wrapper state and result *)
Definition faulty (f : fault) (h : hstate) (run : hstate -> hstate * res) : hstate * res :=
  match f with
  | FNone => run h
  | FBefore | FBeforeHook => (h, RErr EOther)
  | FAfter => (fst (run h), RErr EOther)
  end.
(* the wrapper's MarkAsDispatched: err := core(id); a life-cycle refusal returns at once; otherwise the hook
   runs and err is returned - so a core failure WITHOUT effect still runs the hook, on the unchanged state *)
Definition call_mark_disp (hc : hcfg) (f : fault) (hf : bool) (now : gtime) (id : string) (h : hstate) : hstate * res :=
  match f with
  | FBeforeHook => (hook_dispatched hf now id h, RErr EOther)
  | _ => faulty f h (fun h => hstep hc h (HDispatch hf now id))
  end.
Definition call_mark_done (f : fault) (now : gtime) (id : string) (e : option string) (h : hstate) : hstate * res :=
  faulty f h (fun h => let (r', x) := step cfg_inmem (hs_repo h) (ODone false now id e) in (with_repo h r', x)).
Definition call_get_by_id (f : fault) (id : string) (h : hstate) : res :=
  match f with FNone => snd (step cfg_inmem (hs_repo h) (OGet false id)) | _ => RErr EOther end.
Definition call_get_next (f : fault) (h : hstate) : res :=
  match f with FNone => snd (step cfg_inmem (hs_repo h) (ONext false)) | _ => RErr EOther end.

Definition remove_first (id : string) (l : list (string * task)) : list (string * task) :=
  (fix go (l : list (string * task)) :=
     match l with
     | [] => []
     | x :: r => if String.eqb (fst x) id then r else x :: go r
     end) l.
Definition str_mem (id : string) (l : list string) : bool := existsb (String.eqb id) l.
Fixpoint str_del (id : string) (l : list string) : list string :=
  match l with [] => [] | x :: r => if String.eqb x id then r else x :: str_del id r end.

(* what dispatchTask does after a successful fetch: the worker holds the task, Step returns Dispatched *)
Definition accept_task (s : sys) (t : task) : sys :=
  mkSys (sy_h s) (sy_now s) (sy_last s) (sy_err s) (PEnd (SDispatched (t_id t)) false)
        (sy_accepted s ++ [(t_id t, t)]) (sy_running s) (sy_results s) (sy_starts s) (sy_reports s) (sy_retry s).

Definition is_err_res (r : res) : bool := match r with RErr _ => true | _ => false end.
Definition is_def_error (r : res) : bool :=
  (* def.IsDefError: ErrInvalidTask / repository errors; an injected fault is none of them *)
  match r with RErr EOther | RErr ECtx => false | RErr _ => true | _ => false end.

Definition sys_step (sc : scfg) (hc : hcfg) (s : sys) (l : slabel) : option sys :=
  let s0 := s in
  let h := sy_h s in
  let now := sy_now s in
  match l with
  | LUser o r =>
    match o with
    | HAdd _ _ _ _ | HUpdate _ _ _ _ | HCancel _ _ _ | HStart _ _ =>
      let (h', x) := hstep hc h o in
      if res_eqb x r then Some (set_h s h') else None
    | _ => None
    end
  | LAdvance n =>
    if inst now <=? inst n
    then Some (mkSys (mkHS (hs_repo h) (hs_hook h) (tm_fire (hs_timer h) (inst n))) n (sy_last s) (sy_err s) (sy_pc s)
                     (sy_accepted s) (sy_running s) (sy_results s) (sy_starts s) (sy_reports s) (sy_retry s))
    else None
  | LStepBegin =>
    match sy_pc s with
    | PIdle => Some (mkSys h now (sy_last s) (sy_err s) PStep0 (sy_accepted s) (sy_running s) (sy_results s)
                           (sy_starts s) (sy_reports s) None)
    | _ => None
    end
  | LRetryBegin prev =>
    (* driver discipline: Retry gets the error state that was just returned, once *)
    let s := mkSys h now (sy_last s) (sy_err s) (sy_pc s) (sy_accepted s) (sy_running s) (sy_results s)
                   (sy_starts s) (sy_reports s) None in
    match (if match sy_retry s0 with Some p => sstate_eqb p prev | None => false end then sy_pc s else PEnd SNone false) with
    | PIdle =>
      match prev with
      | STimerUpdateError => Some (set_pc s (PRestart1 KRetry))
      | SDispatchErr t => Some (set_pc s (PRetryDE t))
      | STaskDone id o _ => Some (set_pc s (PRetryTD id o))
      | _ => Some (set_pc s (PEnd SNone false))
      end
    | _ => None
    end
  | LStepEnd st re =>
    match sy_pc s with
    | PEnd st' re' =>
      if sstate_eqb st st' && Bool.eqb re re'
      then Some (mkSys h now (sy_last s) (sy_err s) PIdle (sy_accepted s) (sy_running s) (sy_results s) (sy_starts s)
                       (match st' with STaskDone id _ _ => id :: sy_reports s | _ => sy_reports s end)
                       (* an error state may be handed to Retry next *)
                       (if match st' with
                           | STimerUpdateError | SDispatchErr _ => true
                           | SNextTask ok _ => negb ok
                           | STaskDone _ _ u => u
                           | _ => false
                           end then Some st' else None))
      else None
    | PSelect =>
      (* select took the result branch for a run that ended by cancellation: no repository call *)
      match st, sy_results s with
      | STaskDone id OCanceled false, (id', OCanceled) :: rest =>
        if String.eqb id id' && negb re
        then Some (mkSys h now (sy_last s) (sy_err s) PIdle (sy_accepted s) (sy_running s) rest (sy_starts s) (id :: sy_reports s) None)
        else None
      | _, _ => None
      end
    | _ => None
    end
  | LWorkStart id n snap =>
    match find (fun x => String.eqb (fst x) id) (sy_accepted s) with
    | Some (_, t) =>
      (* the work function sees the task the fetcher read *)
      if gtime_eqb n now && task_eqb snap t
      then Some (mkSys h now (sy_last s) (sy_err s) (sy_pc s) (remove_first id (sy_accepted s)) (id :: sy_running s)
                       (sy_results s) ((id, n, snap) :: sy_starts s) (sy_reports s) (sy_retry s))
      else None
    | None => None
    end
  | LDump l n blocked =>
    if tasks_eqb l (hs_repo h) && gtime_eqb n now
       && Bool.eqb blocked (match sy_pc s with PSelect => true | _ => false end)
    then Some s else None
  | LHarnessFailure _ => None
  | LFire =>
    match sy_pc s with
    | PSelect =>
      if tm_pending (hs_timer h)
      then Some (set_pc (set_h s (mkHS (hs_repo h) (hs_hook h) (tm_consume (hs_timer h)))) PFire1)
      else None
    | _ => None
    end
  | LWorkEnd id o =>
    if str_mem id (sy_running s)
    then Some (mkSys h now (sy_last s) (sy_err s) (sy_pc s) (sy_accepted s) (str_del id (sy_running s))
                     (sy_results s ++ [(id, o)]) (sy_starts s) (sy_reports s) (sy_retry s))
    else
      (* unknown work id: the worker reports without ever starting a work function ... *)
      match o, find (fun x => String.eqb (fst x) id) (sy_accepted s) with
      | ONotFound, Some _
      | OCanceled, Some _ =>   (* ... or: the dispatch context was cancelled between the fetch and the start *)
        Some (mkSys h now (sy_last s) (sy_err s) (sy_pc s) (remove_first id (sy_accepted s)) (sy_running s)
                    (sy_results s ++ [(id, o)]) (sy_starts s) (sy_reports s) (sy_retry s))
      | _, _ => None
      end
  | LCall c f hf r =>
    match sy_pc s, c with
    (* ---- Step entry: restart the timer if the last look-up failed ---- *)
    | PStep0, CLtue =>
      let e := hk_err (hs_hook h) in
      if negb (sy_err s) && cret_eqb r (RBool e)
      then Some (set_pc s (if e then PRestart1 KStep else PStepMain))
      else None
    | PStep0, CStop =>
      (* getNextErr != nil short-circuits the LastTimerUpdateError call *)
      if sy_err s && cret_eqb r RUnit then Some (set_pc (set_h s (hook_stop h)) (PRestart2 KStep)) else None
    | PRestart1 k, CStop => if cret_eqb r RUnit then Some (set_pc (set_h s (hook_stop h)) (PRestart2 k)) else None
    | PRestart2 k, CStart => if cret_eqb r RUnit then Some (set_pc (set_h s (hook_start hf now h)) (PRestart3 k)) else None
    | PRestart3 k, CLtue =>
      let e := hk_err (hs_hook h) in
      if cret_eqb r (RBool e)
      then Some (if e then set_pc s (PEnd STimerUpdateError (match k with KStep => false | KRetry => true end))
                 else match k with KStep => set_pc s PStepMain | KRetry => set_pc s (PEnd SNone false) end)
      else None
    (* ---- Step proper ---- *)
    | PStepMain, CTimerCh =>
      (* getNextErr := nil; with an announced task Step dispatches it instead of waiting *)
      match sy_last s with
      | None => if cret_eqb r RUnit then Some (set_sched s None false PSelect) else None
      | Some _ => None
      end
    | PStepMain, CMarkDisp id =>
      match sy_last s with
      | Some t =>
        if String.eqb id (t_id t) then
          let (h', x) := call_mark_disp hc f hf now id h in
          if cret_eqb r (RRes x)
          then Some (if is_err_res x
                     then set_sched (set_h s h') None false (PEnd (SDispatchErr t) false)
                     else set_sched (set_h s h') None false (PDisp2 KStep t))
          else None
        else None
      | None => None
      end
    | PDisp1 k t, CMarkDisp id =>
      if String.eqb id (t_id t) then
        let (h', x) := call_mark_disp hc f hf now id h in
        if cret_eqb r (RRes x)
        then Some (if is_err_res x then set_pc (set_h s h') (PEnd (SDispatchErr t) true) else set_pc (set_h s h') (PDisp2 k t))
        else None
      else None
    | PDisp2 k t, CGetById id =>
      if String.eqb id (t_id t) then
        let x := call_get_by_id f id h in
        if cret_eqb r (RRes x)
        then match x with
             | RTask t' => Some (accept_task s t')
             | _ => Some (set_pc s (PEnd (SDispatchErr t) (match k with KStep => false | KRetry => true end)))
             end
        else None
      else None
    | PFire1, CGetNext =>
      (* the fire branch *)
      let x := call_get_next f h in
      if cret_eqb r (RRes x)
      then match x with
           | RTask t => Some (set_pc s (PFire2 t))
           | _ => Some (set_sched s None true (PEnd (SNextTask false None) false))
           end
      else None
    | PFire2 next, CNextSched =>
      let ns := next_scheduled_h h in
      if cret_eqb r (RTime ns) then
        let agree := match ns with Some t => t_equal t (t_sched next) | None => false end in
        let due := negb (sc_clock_check sc) || negb (t_after (t_sched next) now) in
        if agree && due
        then Some (set_sched s (Some next) false (PEnd (SNextTask true (Some next)) false))
        else Some (set_sched s None (sc_err_on_mismatch sc) (PEnd (SNextTask false None) false))
      else None
    | PSelect, CMarkDone id e =>
      (* the result branch: the oldest queued result *)
      match sy_results s with
      | (id', o) :: rest =>
        if String.eqb id id' && negb (outcome_eqb o OCanceled)
           && match e, outcome_err o with Some a, Some b => String.eqb a b | None, None => true | _, _ => false end
        then
          let (h', x) := call_mark_done f now id e h in
          if cret_eqb r (RRes x)
          then Some (mkSys h' now (sy_last s) (sy_err s) (PEnd (STaskDone id o (is_err_res x)) false) (sy_accepted s)
                           (sy_running s) rest (sy_starts s) (sy_reports s) (sy_retry s))
          else None
        else None
      | [] => None
      end
    (* ---- Retry ---- *)
    | PRetryDE t, CGetById id =>
      if String.eqb id (t_id t) then
        let x := call_get_by_id f id h in
        if cret_eqb r (RRes x) then
          if sc_retry_by_state sc then
            match x with
            | RTask t' =>
              match t_state t' with
              | Scheduled =>
                (* postponed in the meantime: leave it to the timer, which must be restarted *)
                if t_after (t_sched t') now then Some (set_sched s None true (PEnd SNone false))
                else Some (set_pc s (PDisp1 KRetry t'))
              | Dispatched => Some (set_pc s (PDisp2 KRetry t'))
              | _ => Some (set_pc s (PEnd SNone false))
              end
            | RErr EIdNotFound =>
              (* the task is gone (volatile repository): nothing is left to dispatch *)
              Some (set_pc s (PEnd SNone false))
            | _ => Some (set_pc s (PEnd (SDispatchErr t) true))
            end
          else
            (* pinned: any definition-level error is ignored, the task is run with isRetry = true *)
            match x with
            | RTask _ => Some (set_pc s (PDisp2 KRetry t))
            | _ => if is_def_error x then Some (set_pc s (PDisp2 KRetry zero_task)) else Some (set_pc s (PEnd (SDispatchErr t) true))
            end
        else None
      else None
    | PRetryTD id o, CMarkDone id' e' =>
      (* Retry(TaskDone): MarkAsDone again, AlreadyDone is tolerated *)
      let e := outcome_err o in
      if String.eqb id id' && match e, e' with Some a, Some b => String.eqb a b | None, None => true | _, _ => false end
      then
        let (h', x) := call_mark_done f now id e h in
        if cret_eqb r (RRes x)
        then
          let tolerated := match x with RErr EAlreadyDone => true | RErr _ => false | _ => true end in
          Some (set_pc (set_h s h') (if tolerated then PEnd SNone false else PEnd (STaskDone id o true) true))
        else None
      else None
    | _, _ => None
    end
  end.
Definition sys_step_full := sys_step.

Fixpoint sys_check (sc : scfg) (hc : hcfg) (s : sys) (tr : list slabel) (i : nat) : option nat :=
  match tr with
  | [] => None
  | l :: r => match sys_step_full sc hc s l with
              | Some s' => sys_check sc hc s' r (S i)
              | None => Some i
              end
  end.
Fixpoint sys_mismatches (sc : scfg) (hc : hcfg) (l : list (list slabel)) (k : nat) : list (nat * nat) :=
  match l with
  | [] => []
  | tr :: r => match sys_check sc hc sys_init tr 0 with
               | Some i => (k, i) :: sys_mismatches sc hc r (S k)
               | None => sys_mismatches sc hc r (S k)
               end
  end.
Fixpoint sys_state_at (sc : scfg) (hc : hcfg) (s : sys) (tr : list slabel) (i : nat) : sys :=
  match i, tr with
  | O, _ => s
  | S j, l :: r => match sys_step_full sc hc s l with Some s' => sys_state_at sc hc s' r j | None => s end
  | _, [] => s
  end.
Definition sys_expect (sc : scfg) (hc : hcfg) (tr : list slabel) (i : nat) :=
  let s := sys_state_at sc hc sys_init tr i in
  (nth_error tr i, sy_pc s, sy_last s, sy_err s, hs_hook (sy_h s), hs_timer (sy_h s), sy_now s,
   map (fun t => (t_id t, t_state t, t_sched t)) (hs_repo (sy_h s)), sy_results s, map fst (sy_accepted s), sy_running s).
