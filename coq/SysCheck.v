(* SysCheck.v — C03 / C04 / C05 / C06 / C20 as boolean predicates over OBSERVED label traces of the whole
   pipeline (they look only at what was observed: work-function starts with their clock reading and the
   stored task, user operations and their results, scheduler calls, the final dump). *)
From GK Require Export Sys.

(* the variants of the scheduler / hook models that describe /repo's CURRENT source (the correspondence
   check uses these; the theorems are about the repaired variants) *)
Definition scfg_current : scfg := scfg_fixed.
Definition hcfg_current : hcfg := hcfg_fixed.

Fixpoint starts_of (tr : list slabel) : list (string * gtime * task) :=
  match tr with
  | [] => []
  | LWorkStart id n snap :: r => (id, n, snap) :: starts_of r
  | _ :: r => starts_of r
  end.

(* C03: no work function starts while the clock reads earlier than the task's scheduled time *)
Definition c03_ok (tr : list slabel) : bool :=
  forallb (fun x => match x with (_, n, snap) => inst (t_sched snap) <=? inst n end) (starts_of tr).

(* C04: at most once; only a task that is stored as dispatched; never after its cancellation succeeded;
   only after a MarkAsDispatched call of the scheduler for this id that may have taken effect *)
Fixpoint c04_walk (tr : list slabel) (started cancelled marked : list string) : bool :=
  match tr with
  | [] => true
  | l :: r =>
    match l with
    | LWorkStart id _ snap =>
      negb (str_mem id started) && negb (str_mem id cancelled) && str_mem id marked
      && state_eqb (t_state snap) Dispatched
      && c04_walk r (id :: started) cancelled marked
    | LUser (HCancel _ _ id) ROk => c04_walk r started (id :: cancelled) marked
    | LCall (CMarkDisp id) f _ x =>
      let took_effect := match f, x with FNone, RRes ROk => true | FAfter, _ => true
                                       | FBefore, _ | FBeforeHook, _ | FNone, _ => false end in
      c04_walk r started cancelled (if took_effect then id :: marked else marked)
    | _ => c04_walk r started cancelled marked
    end
  end.
Definition c04_ok (tr : list slabel) : bool := c04_walk tr [] [] [].

Fixpoint last_dump (tr : list slabel) : option (list task * gtime * bool) :=
  match tr with
  | [] => None
  | LDump l n b :: r => match last_dump r with Some x => Some x | None => Some (l, n, b) end
  | _ :: r => last_dump r
  end.
Fixpoint ends_of (tr : list slabel) : list (string * outcome) :=
  match tr with
  | [] => []
  | LWorkEnd id o :: r => (id, o) :: ends_of r
  | _ :: r => ends_of r
  end.
Fixpoint reports_of (tr : list slabel) : list string :=
  match tr with
  | [] => []
  | LStepEnd (STaskDone id _ _) false :: r => id :: reports_of r
  | _ :: r => reports_of r
  end.
Definition count_str (id : string) (l : list string) : nat := List.length (filter (String.eqb id) l).

(* C06: the repository ends up recording exactly the outcome of every finished run; reported exactly once;
   a run ended only by cancellation of the dispatcher stays dispatched *)
Definition outcome_recorded (o : outcome) (t : task) : bool :=
  match o with
  | ONil => state_eqb (t_state t) Done && String.eqb (t_err t) ""
  | OCanceled => state_eqb (t_state t) Dispatched
  | _ => state_eqb (t_state t) Err
         && match outcome_err o with Some e => String.eqb (t_err t) e | None => false end
  end.
Definition c06_ok (tr : list slabel) : bool :=
  match last_dump tr with
  | None => true
  | Some (dump, _, _) =>
    forallb (fun x => match lookup (fst x) dump with
                      | Some t => outcome_recorded (snd x) t
                      | None => false
                      end
                      && Nat.eqb (count_str (fst x) (reports_of tr)) 1) (ends_of tr)
  end.

(* C05: at quiescence (time past every schedule, driver blocked with nothing pending) no scheduled task
   whose time has come is left *)
Definition c05_ok (tr : list slabel) : bool :=
  match last_dump tr with
  | None => true
  | Some (dump, now, blocked) =>
    (* the driver came to rest (finitely many steps), and no due task is left scheduled *)
    blocked && forallb (fun t => negb (is_sched t && (inst (t_sched t) <=? inst now))) dump
  end.

(* C20 recovery: additionally nothing is stranded in dispatched state without a run (a fault must not
   lose a task): every dispatched task of the final dump is one whose run ended by cancellation *)
Definition c20_ok (tr : list slabel) : bool :=
  c03_ok tr && c04_ok tr && c05_ok tr && c06_ok tr
  && match last_dump tr with
     | None => true
     | Some (dump, _, _) =>
       forallb (fun t => negb (state_eqb (t_state t) Dispatched)
                         || existsb (fun x => String.eqb (fst x) (t_id t) && outcome_eqb (snd x) OCanceled) (ends_of tr)) dump
     end.

Fixpoint trace_violations (p : list slabel -> bool) (l : list (list slabel)) (k : nat) : list (nat * nat) :=
  match l with
  | [] => []
  | tr :: r => if p tr then trace_violations p r (S k) else (k, O) :: trace_violations p r (S k)
  end.

(* ---------- known finding F9b: the announce -> dispatch window ----------
   Step announces a task (StateNextTask) in one call and dispatches it in the next; a user who postpones the
   announced task in between has it dispatched at the old time: MarkAsDispatched is unconditional, the
   repository offers no "dispatch if still due" primitive. Signature: EVERY early start of the trace is a
   task that was successfully postponed by UpdateById between its announcement and its MarkAsDispatched. *)
Fixpoint postponed_in_window (tr : list slabel) (announced : option string) (acc : list string) : list string :=
  match tr with
  | [] => acc
  | l :: r =>
    match l with
    | LCall CGetNext _ _ (RRes (RTask t)) => postponed_in_window r (Some (t_id t)) acc   (* Step has read the task it is going to announce *)
    | LUser (HUpdate _ _ id p) ROk =>
      match announced, u_sched p with
      | Some a, Some _ => postponed_in_window r announced (if String.eqb a id then id :: acc else acc)
      | _, _ => postponed_in_window r announced acc
      end
    | LCall (CMarkDisp _) _ _ _ => postponed_in_window r None acc
    | _ => postponed_in_window r announced acc
    end
  end.
Definition early_starts (tr : list slabel) : list string :=
  flat_map (fun x => match x with (id, n, snap) => if inst (t_sched snap) <=? inst n then [] else [id] end) (starts_of tr).
Definition sig_F9b (tr : list slabel) : bool :=
  let w := postponed_in_window tr None [] in
  negb (match early_starts tr with [] => true | _ => false end)
  && forallb (fun id => str_mem id w) (early_starts tr).
(* for C20 the finding explains the C03 part only: everything else must hold *)
Definition sig_F9b_c20 (tr : list slabel) : bool :=
  sig_F9b tr && c04_ok tr && c05_ok tr && c06_ok tr.

(* The same read-then-dispatch window exists in Retry(DispatchErr): GetById reads the task (scheduled and
   due), MarkAsDispatched follows unconditionally (found while proving C03: Proofs/SysProofs.v,
   cex_retry_window). The recorded finding F9b covers both: EVERY early start is a task postponed between the
   scheduler's read of it (GetNext of the announcing Step, or a GetById) and its MarkAsDispatched. *)
Fixpoint postponed_after_fetch (tr : list slabel) (fetched : option string) (acc : list string) : list string :=
  match tr with
  | [] => acc
  | l :: r =>
    match l with
    | LCall (CGetById _) _ _ (RRes (RTask t)) => postponed_after_fetch r (Some (t_id t)) acc
    | LUser (HUpdate _ _ id p) ROk =>
      match fetched, u_sched p with
      | Some a, Some _ => postponed_after_fetch r fetched (if String.eqb a id then id :: acc else acc)
      | _, _ => postponed_after_fetch r fetched acc
      end
    | LCall (CMarkDisp _) _ _ _ => postponed_after_fetch r None acc
    | _ => postponed_after_fetch r fetched acc
    end
  end.
(* What the finding excuses, exactly: the task was read by the scheduler (GetNext of the announcing Step, or a
   GetById), then postponed, and the NEXT MarkAsDispatched may have taken effect (returned nil, or failed after
   taking effect). A MarkAsDispatched that failed without effect - or a dispatch given up while waiting for a
   worker - excuses nothing: the driver's Retry re-reads the task and must notice the postponement. *)
(* FBeforeHook (the core call failed without effect, the wrapper still ran the timer hook) is FBefore as far as the
   repository goes: no effect - here and in c04_walk's took_effect it falls under the last clause *)
Definition markdisp_may_take_effect (f : fault) (r : cret) : bool :=
  match f, r with FNone, RRes ROk => true | FAfter, _ => true | FBefore, _ | FBeforeHook, _ | FNone, _ => false end.
Fixpoint excused_postponements (tr : list slabel) (win : option string) (pend acc : list string) : list string :=
  match tr with
  | [] => acc
  | l :: r =>
    match l with
    | LCall CGetNext _ _ (RRes (RTask t)) => excused_postponements r (Some (t_id t)) [] acc
    | LCall (CGetById _) _ _ (RRes (RTask t)) => excused_postponements r (Some (t_id t)) [] acc
    | LUser (HUpdate _ _ id p) ROk =>
      match win, u_sched p with
      | Some a, Some _ => excused_postponements r win (if String.eqb a id then id :: pend else pend) acc
      | _, _ => excused_postponements r win pend acc
      end
    | LCall (CMarkDisp _) f _ res =>
      excused_postponements r None [] (if markdisp_may_take_effect f res then pend ++ acc else acc)
    | _ => excused_postponements r win pend acc
    end
  end.
Definition sig_F9b2 (tr : list slabel) : bool :=
  let w := excused_postponements tr None [] [] in
  negb (match early_starts tr with [] => true | _ => false end)
  && forallb (fun id => str_mem id w) (early_starts tr).
Definition sig_F9b2_c20 (tr : list slabel) : bool :=
  sig_F9b2 tr && c04_ok tr && c05_ok tr && c06_ok tr.
