(* Base.v — pure data definitions shared by every model (no proofs here).
   Transliterates def/task.go, def/task_param.go (update part), def/util/drop_micros.go. *)
From Coq Require Export List ZArith Bool String Ascii Lia.
Export ListNotations.
Open Scope string_scope.
Open Scope list_scope.
Open Scope Z_scope.

(* ---------- time ---------- *)
(* inst: nanoseconds relative to the harness epoch (a whole millisecond); utc: Location()==time.UTC *)
Record gtime := T { inst : Z; utc : bool }.

(* Go's zero time (0001-01-01T00:00:00Z) relative to the harness epoch 2024-01-01T00:00:00Z: a whole millisecond *)
Definition tzero_inst : Z := -63839664000000000000.
Definition tzero : gtime := T tzero_inst true.
Definition ms : Z := 1000000.

Definition is_zero (t : gtime) : bool := inst t =? tzero_inst.
(* DropMicros (= Truncate(time.Millisecond), floor on the absolute instant) then In(time.UTC) *)
Definition norm (t : gtime) : gtime := T (inst t - inst t mod ms) true.
Definition t_equal (a b : gtime) : bool := inst a =? inst b.
Definition t_before (a b : gtime) : bool := inst a <? inst b.
Definition t_after (a b : gtime) : bool := inst b <? inst a.
Definition t_compare (a b : gtime) : comparison := inst a ?= inst b.
Definition t_add (a : gtime) (d : Z) : gtime := T (inst a + d) (utc a).
Definition gtime_eqb (a b : gtime) : bool := (inst a =? inst b) && Bool.eqb (utc a) (utc b).

Definition omap {A B} (f : A -> B) (o : option A) : option B :=
  match o with Some a => Some (f a) | None => None end.
Definition oor {A} (a b : option A) : option A := match a with Some _ => a | None => b end.
Definition is_some {A} (o : option A) : bool := match o with Some _ => true | None => false end.
Definition is_none {A} (o : option A) : bool := negb (is_some o).

Definition ogtime_eqb (a b : option gtime) : bool :=
  match a, b with
  | Some x, Some y => gtime_eqb x y
  | None, None => true
  | _, _ => false
  end.

(* ---------- string maps: key-sorted association lists; nil and empty identified ---------- *)
Definition smap := list (string * string).
Fixpoint sm_get (m : smap) (k : string) : option string :=
  match m with
  | [] => None
  | (k', v) :: r => if String.eqb k k' then Some v else sm_get r k
  end.
Fixpoint sm_set (m : smap) (k v : string) : smap :=
  match m with
  | [] => [(k, v)]
  | (k', v') :: r => if String.eqb k k' then (k, v) :: r else (k', v') :: sm_set r k v
  end.
Fixpoint smap_eqb (a b : smap) : bool :=
  match a, b with
  | [], [] => true
  | (k, v) :: r, (k', v') :: r' => String.eqb k k' && String.eqb v v' && smap_eqb r r'
  | _, _ => false
  end.

(* ---------- task ---------- *)
Inductive state := Scheduled | Dispatched | Cancelled | Done | Err | SOther.
Definition state_eqb (a b : state) : bool :=
  match a, b with
  | Scheduled, Scheduled | Dispatched, Dispatched | Cancelled, Cancelled
  | Done, Done | Err, Err | SOther, SOther => true
  | _, _ => false
  end.
Definition is_state (s : state) : bool := negb (state_eqb s SOther).

Record task := mkTask {
  t_id : string; t_work : string; t_prio : Z; t_state : state; t_err : string;
  t_param : smap; t_meta : smap;
  t_sched : gtime; t_created : gtime;
  t_deadline : option gtime; t_cancelled : option gtime;
  t_dispatched : option gtime; t_done : option gtime }.

Definition task_eqb (a b : task) : bool :=
  String.eqb (t_id a) (t_id b) && String.eqb (t_work a) (t_work b) && (t_prio a =? t_prio b)
  && state_eqb (t_state a) (t_state b) && String.eqb (t_err a) (t_err b)
  && smap_eqb (t_param a) (t_param b) && smap_eqb (t_meta a) (t_meta b)
  && gtime_eqb (t_sched a) (t_sched b) && gtime_eqb (t_created a) (t_created b)
  && ogtime_eqb (t_deadline a) (t_deadline b) && ogtime_eqb (t_cancelled a) (t_cancelled b)
  && ogtime_eqb (t_dispatched a) (t_dispatched b) && ogtime_eqb (t_done a) (t_done b).

Definition zero_task : task :=
  mkTask "" "" 0 SOther "" [] [] tzero tzero None None None None.

(* Task.IsValid *)
Definition is_valid (t : task) : bool :=
  negb (String.eqb (t_id t) "") && negb (String.eqb (t_work t) "") && is_state (t_state t)
  && negb (is_zero (t_sched t)) && negb (is_zero (t_created t)).

(* Task.NormalizeTime *)
Definition norm_task (t : task) : task :=
  mkTask (t_id t) (t_work t) (t_prio t) (t_state t) (t_err t) (t_param t) (t_meta t)
    (norm (t_sched t)) (norm (t_created t))
    (omap norm (t_deadline t)) (omap norm (t_cancelled t))
    (omap norm (t_dispatched t)) (omap norm (t_done t)).

(* Task.Less (def/task.go) — used by the hook timer *)
Definition task_less (t j : task) : bool :=
  if is_some (t_cancelled t) then true
  else if negb (t_equal (t_sched t) (t_sched j)) then t_before (t_sched t) (t_sched j)
  else if negb (t_prio t =? t_prio j) then t_prio j <? t_prio t
  else t_before (t_created t) (t_created j).

(* ---------- TaskUpdateParam ---------- *)
Record uparam := mkU {
  u_work : option string; u_prio : option Z; u_param : option smap; u_meta : option smap;
  u_sched : option gtime; u_deadline : option (option gtime) }.

Definition u_empty : uparam := mkU None None None None None None.

(* TaskUpdateParam.Normalize *)
Definition norm_uparam (p : uparam) : uparam :=
  mkU (u_work p) (u_prio p) (u_param p) (u_meta p)
      (omap norm (u_sched p)) (omap (omap norm) (u_deadline p)).

(* TaskUpdateParam.Update: u overrides p *)
Definition uparam_update (p u : uparam) : uparam :=
  mkU (oor (u_work u) (u_work p)) (oor (u_prio u) (u_prio p)) (oor (u_param u) (u_param p))
      (oor (u_meta u) (u_meta p)) (oor (u_sched u) (u_sched p)) (oor (u_deadline u) (u_deadline p)).

Definition assign {A} (old : A) (u : option A) : A := match u with Some v => v | None => old end.

(* Task.Update: assign the Some fields, then NormalizeTime *)
Definition task_update (t : task) (p : uparam) : task :=
  norm_task
    (mkTask (t_id t) (assign (t_work t) (u_work p)) (assign (t_prio t) (u_prio p)) (t_state t) (t_err t)
       (assign (t_param t) (u_param p)) (assign (t_meta t) (u_meta p))
       (assign (t_sched t) (u_sched p)) (t_created t)
       (assign (t_deadline t) (u_deadline p)) (t_cancelled t) (t_dispatched t) (t_done t)).

(* TaskUpdateParam.ToTask *)
Definition to_task (p : uparam) (id : string) (created : gtime) : task :=
  task_update
    (mkTask id "" 0 Scheduled "" [] [] tzero (norm created) None None None None) p.

(* ---------- errors ---------- *)
Inductive err :=
| EIdNotFound | EAlreadyCancelled | EAlreadyDone | EAlreadyDispatched | EExhausted
| ENotDispatched | EInvalidTask | ECtx | EOther.
Definition err_eqb (a b : err) : bool :=
  match a, b with
  | EIdNotFound, EIdNotFound | EAlreadyCancelled, EAlreadyCancelled | EAlreadyDone, EAlreadyDone
  | EAlreadyDispatched, EAlreadyDispatched | EExhausted, EExhausted | ENotDispatched, ENotDispatched
  | EInvalidTask, EInvalidTask | ECtx, ECtx | EOther, EOther => true
  | _, _ => false
  end.

(* def.ErrKind (def/err_kind.go) *)
Record ekopt := mkEK { skip_cancelled : bool; skip_dispatched : bool; skip_done : bool; ret_on_empty_disp : bool }.
Definition err_kind (t : task) (o : ekopt) : option err :=
  if negb (skip_done o) && is_some (t_done t) then Some EAlreadyDone
  else if negb (skip_cancelled o) && is_some (t_cancelled t) then Some EAlreadyCancelled
  else if negb (skip_dispatched o) && is_some (t_dispatched t) then Some EAlreadyDispatched
  else if ret_on_empty_disp o && is_none (t_dispatched t) then Some ENotDispatched
  else None.
Definition ek_default : ekopt := mkEK false false false false.
Definition ek_done : ekopt := mkEK false true false true.
Definition err_kind_update := fun t => err_kind t ek_default.
Definition err_kind_cancel := fun t => err_kind t ek_default.
Definition err_kind_dispatch := fun t => err_kind t ek_default.
Definition err_kind_done := fun t => err_kind t ek_done.
