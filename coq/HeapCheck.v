(* HeapCheck.v — exact comparison of the REAL heap array / Index fields / insertion numbers of the in-memory
   repository (VerifProbe) with the concrete model Heap.v after every operation of a history. *)
From GK Require Export Heap RepoCheck.

Definition probe := (list string * list Z * list (string * Z * nat))%type.
Definition phist := list (op * res * probe).

Fixpoint strs_eqb (a b : list string) : bool :=
  match a, b with [] , [] => true | x :: r, y :: r' => String.eqb x y && strs_eqb r r' | _, _ => false end.
Fixpoint zs_eqb (a b : list Z) : bool :=
  match a, b with [] , [] => true | x :: r, y :: r' => (x =? y) && zs_eqb r r' | _, _ => false end.
Fixpoint mes_eqb (a b : list (string * Z * nat)) : bool :=
  match a, b with
  | [], [] => true
  | (i, x, n) :: r, (j, y, m) :: r' => String.eqb i j && (x =? y) && Nat.eqb n m && mes_eqb r r'
  | _, _ => false
  end.

Fixpoint pcheck (c : crepo) (h : phist) (i : nat) : option nat :=
  match h with
  | [] => None
  | (o, r, (hi, hx, me)) :: rest =>
    let (c', x) := cstep c o in
    if res_eqb x r && strs_eqb (heap_ids c') hi && zs_eqb (heap_indices c') hx && mes_eqb (map_entries c') me
    then pcheck c' rest (S i) else Some i
  end.
Fixpoint probe_mismatches (l : list phist) (k : nat) : list (nat * nat) :=
  match l with
  | [] => []
  | h :: r => match pcheck cinit h 0 with
              | Some i => (k, i) :: probe_mismatches r (S k)
              | None => probe_mismatches r (S k)
              end
  end.
Fixpoint cstate_at (c : crepo) (h : phist) (i : nat) : crepo :=
  match i, h with
  | O, _ => c
  | S j, (o, _, _) :: r => cstate_at (fst (cstep c o)) r j
  | _, [] => c
  end.
Definition probe_expect (h : phist) (i : nat) :=
  let c := cstate_at cinit h i in
  match nth_error h i with
  | Some (o, r, p) => let (c', x) := cstep c o in Some (o, x, heap_ids c', heap_indices c', map_entries c', (r, p))
  | None => None
  end.
