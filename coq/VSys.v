(* VSys.v — the pipeline in its second configuration: Scheduler over scheduler.NewVolatileTaskRepo(CronStore).
   volatileTaskRepo (scheduler/repository.go) is modelled here over the cron-store model Cron.v; the
   scheduler automaton is the one of Sys.v (same program counters, same calls), without fault injection - except for
   the one fault that matters in this configuration: the store's Pop inside MarkAsDispatched may fail (head_bound).
   Task ids are uuids the store draws itself: they are learnt from the observations (the model's tasks carry
   the blank id) and must stay consistent per pending task. No proofs here. *)
From GK Require Export Cron Sys.

Section WithSchedule.
  Variable nxt : nat -> gtime -> gtime.

  Record vsys := mkVS {
    vs_cron : cron;
    vs_ids : list (nat * string);            (* insertion number of a pending task -> the id it was seen with *)
    vs_record : list (string * task);        (* volatileTaskRepo.record *)
    vs_now : gtime;
    vs_last : option task;
    vs_err : bool;
    vs_pc : spc;
    vs_accepted : list (string * task);
    vs_running : list string;
    vs_results : list (string * outcome);
    vs_starts : list (string * gtime * task);
    vs_retry : option sstate
  }.
  Definition vsys_init : vsys := mkVS cron_empty [] [] (T 0 true) None false PIdle [] [] [] [] None.

  Inductive vlabel :=
  | VNew (now : gtime) (rows : list (crow * gtime)) (initial : list nat) (ok : bool)
  | VEdit (now : gtime) (removed added : list nat) (ok : bool)
  | VStartTimer (now : gtime)
  | VAdvance (now : gtime)
  | VStepBegin
  | VRetryBegin (prev : sstate)
  | VCall (c : scall) (r : cret)
  | VFire
  | VStepEnd (st : sstate) (retry_err : bool)
  | VWorkStart (id : string) (now : gtime) (snap : task)
  | VWorkEnd (id : string) (o : outcome)
  | VDump (pending : list task) (now : gtime) (blocked : bool)
  | VHarnessFailure (msg : string).

  Definition with_id (t : task) (id : string) : task :=
    mkTask id (t_work t) (t_prio t) (t_state t) (t_err t) (t_param t) (t_meta t) (t_sched t) (t_created t)
           (t_deadline t) (t_cancelled t) (t_dispatched t) (t_done t).
  Definition id_of (ids : list (nat * string)) (ins : nat) : option string :=
    match List.find (fun p => Nat.eqb (fst p) ins) ids with Some p => Some (snd p) | None => None end.

  (* the head as the store would return it, given the observed task: same content, consistent id *)
  Definition head_accept (s : vsys) (observed : task) : option (ptask * list (nat * string)) :=
    match pt_min None (cr_pending (vs_cron s)) with
    | None => None
    | Some h =>
      if task_eqb (blank_id observed) (blank_id (pt_task h)) then
        match id_of (vs_ids s) (pt_ins h) with
        | Some id => if String.eqb id (t_id observed) then Some (h, vs_ids s) else None
        | None =>
          (* first sight of this pending task: its id must be new *)
          if existsb (fun p => String.eqb (snd p) (t_id observed)) (vs_ids s) then None
          else Some (h, (pt_ins h, t_id observed) :: vs_ids s)
        end
      else None
    end.

  Definition set_vpc (s : vsys) (pc : spc) : vsys :=
    mkVS (vs_cron s) (vs_ids s) (vs_record s) (vs_now s) (vs_last s) (vs_err s) pc (vs_accepted s) (vs_running s)
         (vs_results s) (vs_starts s) (vs_retry s).
  Definition set_vsched (s : vsys) (last : option task) (e : bool) (pc : spc) : vsys :=
    mkVS (vs_cron s) (vs_ids s) (vs_record s) (vs_now s) last e pc (vs_accepted s) (vs_running s)
         (vs_results s) (vs_starts s) (vs_retry s).
  Definition set_vcron (s : vsys) (c : cron) : vsys :=
    mkVS c (vs_ids s) (vs_record s) (vs_now s) (vs_last s) (vs_err s) (vs_pc s) (vs_accepted s) (vs_running s)
         (vs_results s) (vs_starts s) (vs_retry s).
  Definition rec_get (r : list (string * task)) (id : string) : option task :=
    match List.find (fun p => String.eqb (fst p) id) r with Some p => Some (snd p) | None => None end.
  Definition rec_del (r : list (string * task)) (id : string) := filter (fun p => negb (String.eqb (fst p) id)) r.
  Definition rec_set (r : list (string * task)) (id : string) (t : task) := (id, t) :: rec_del r id.

  (* volatileTaskRepo.MarkAsDispatched *)
  Definition v_mark_disp (s : vsys) (id : string) : vsys * res :=
    let hd := pt_min None (cr_pending (vs_cron s)) in
    if match hd with
       | Some h => match id_of (vs_ids s) (pt_ins h) with Some i => String.eqb i id | None => false end
       | None => false
       end
    then let (c', _) := pop nxt (vs_cron s) (vs_now s) in (set_vcron s c', ROk)
    else match rec_get (vs_record s) id with
         | Some _ =>
           (* a different head, or no head at all (F19): the fetched task was cancelled meanwhile *)
           (mkVS (vs_cron s) (vs_ids s) (rec_del (vs_record s) id) (vs_now s) (vs_last s) (vs_err s) (vs_pc s)
                 (vs_accepted s) (vs_running s) (vs_results s) (vs_starts s) (vs_retry s),
            RErr EAlreadyCancelled)
         | None => (s, match hd with None => RErr EExhausted | Some _ => ROk end)
         end.

  (* the head of the store is known under [id]: the condition under which v_mark_disp calls the store's Pop.
     A Pop that fails (transient error, nothing popped) is returned as is: the record is kept, the store untouched *)
  Definition head_bound (s : vsys) (id : string) : bool :=
    match pt_min None (cr_pending (vs_cron s)) with
    | Some h => match id_of (vs_ids s) (pt_ins h) with Some i => String.eqb i id | None => false end
    | None => false
    end.

  Definition vaccept (s : vsys) (t : task) : vsys :=
    mkVS (vs_cron s) (vs_ids s) (vs_record s) (vs_now s) (vs_last s) (vs_err s) (PEnd (SDispatched (t_id t)) false)
         (vs_accepted s ++ [(t_id t, t)]) (vs_running s) (vs_results s) (vs_starts s) (vs_retry s).

  Definition vsys_step (sc : scfg) (s : vsys) (l : vlabel) : option vsys :=
    let now := vs_now s in
    match l with
    | VNew n rows initial ok =>
      let (c', r) := cstep nxt cron_empty (CNew n rows initial) in
      if cres_eqb r (CRBool ok) then Some (mkVS c' [] [] n None false PIdle [] [] [] [] None) else None
    | VEdit n removed added ok =>
      if gtime_eqb n now then
        let (c', r) := cstep nxt (vs_cron s) (CEdit n removed added) in
        if cres_eqb r (CRBool ok) then Some (set_vcron s c') else None
      else None
    | VStartTimer n => if gtime_eqb n now then Some (set_vcron s (start_timer (vs_cron s) n)) else None
    | VAdvance n =>
      if inst now <=? inst n
      then Some (mkVS (advance (vs_cron s) n) (vs_ids s) (vs_record s) n (vs_last s) (vs_err s) (vs_pc s) (vs_accepted s)
                      (vs_running s) (vs_results s) (vs_starts s) (vs_retry s))
      else None
    | VStepBegin =>
      match vs_pc s with
      | PIdle => Some (mkVS (vs_cron s) (vs_ids s) (vs_record s) now (vs_last s) (vs_err s) PStep0 (vs_accepted s)
                            (vs_running s) (vs_results s) (vs_starts s) None)
      | _ => None
      end
    | VRetryBegin prev =>
      match vs_pc s, vs_retry s with
      | PIdle, Some p =>
        if sstate_eqb p prev then
          let s := mkVS (vs_cron s) (vs_ids s) (vs_record s) now (vs_last s) (vs_err s) PIdle (vs_accepted s)
                        (vs_running s) (vs_results s) (vs_starts s) None in
          match prev with
          | STimerUpdateError => Some (set_vpc s (PRestart1 KRetry))
          | SDispatchErr t => Some (set_vpc s (PRetryDE t))
          | STaskDone id o _ => Some (set_vpc s (PRetryTD id o))
          | _ => Some (set_vpc s (PEnd SNone false))
          end
        else None
      | _, _ => None
      end
    | VFire =>
      match vs_pc s with
      | PSelect =>
        let c := vs_cron s in
        if tm_pending (cr_timer c) then Some (set_vpc (set_vcron s (with_timer c (tm_consume (cr_timer c)))) PFire1) else None
      | _ => None
      end
    | VStepEnd st re =>
      match vs_pc s with
      | PEnd st' re' =>
        if sstate_eqb st st' && Bool.eqb re re'
        then Some (mkVS (vs_cron s) (vs_ids s) (vs_record s) now (vs_last s) (vs_err s) PIdle (vs_accepted s) (vs_running s)
                        (vs_results s) (vs_starts s)
                        (if match st' with
                            | STimerUpdateError | SDispatchErr _ => true
                            | SNextTask ok _ => negb ok
                            | STaskDone _ _ u => u
                            | _ => false
                            end then Some st' else None))
        else None
      | PSelect =>
        match st, vs_results s with
        | STaskDone id OCanceled false, (id', OCanceled) :: rest =>
          if String.eqb id id' && negb re
          then Some (mkVS (vs_cron s) (vs_ids s) (vs_record s) now (vs_last s) (vs_err s) PIdle (vs_accepted s) (vs_running s)
                          rest (vs_starts s) None)
          else None
        | _, _ => None
        end
      | _ => None
      end
    | VWorkStart id n snap =>
      match List.find (fun x => String.eqb (fst x) id) (vs_accepted s) with
      | Some (_, t) =>
        if gtime_eqb n now && task_eqb snap t
        then Some (mkVS (vs_cron s) (vs_ids s) (vs_record s) now (vs_last s) (vs_err s) (vs_pc s) (remove_first id (vs_accepted s))
                        (id :: vs_running s) (vs_results s) ((id, n, snap) :: vs_starts s) (vs_retry s))
        else None
      | None => None
      end
    | VWorkEnd id o =>
      if str_mem id (vs_running s)
      then Some (mkVS (vs_cron s) (vs_ids s) (vs_record s) now (vs_last s) (vs_err s) (vs_pc s) (vs_accepted s)
                      (str_del id (vs_running s)) (vs_results s ++ [(id, o)]) (vs_starts s) (vs_retry s))
      else match o, List.find (fun x => String.eqb (fst x) id) (vs_accepted s) with
           | ONotFound, Some _ =>
             Some (mkVS (vs_cron s) (vs_ids s) (vs_record s) now (vs_last s) (vs_err s) (vs_pc s) (remove_first id (vs_accepted s))
                        (vs_running s) (vs_results s ++ [(id, o)]) (vs_starts s) (vs_retry s))
           | _, _ => None
           end
    | VDump pending n blocked =>
      if tasks_eqb (map blank_id pending) (map blank_id (schedule (vs_cron s))) && gtime_eqb n now
         && Bool.eqb blocked (match vs_pc s with PSelect => true | _ => false end)
      then Some s else None
    | VHarnessFailure _ => None
    | VCall c r =>
      match vs_pc s, c with
      | PStep0, CLtue => if negb (vs_err s) && cret_eqb r (RBool false) then Some (set_vpc s PStepMain) else None
      | PStep0, CStop =>
        if vs_err s && cret_eqb r RUnit then Some (set_vpc (set_vcron s (stop_timer (vs_cron s))) (PRestart2 KStep)) else None
      | PRestart1 k, CStop => if cret_eqb r RUnit then Some (set_vpc (set_vcron s (stop_timer (vs_cron s))) (PRestart2 k)) else None
      | PRestart2 k, CStart => if cret_eqb r RUnit then Some (set_vpc (set_vcron s (start_timer (vs_cron s) now)) (PRestart3 k)) else None
      | PRestart3 k, CLtue =>
        if cret_eqb r (RBool false)
        then Some (match k with KStep => set_vpc s PStepMain | KRetry => set_vpc s (PEnd SNone false) end)
        else None
      | PStepMain, CTimerCh =>
        match vs_last s with
        | None => if cret_eqb r RUnit then Some (set_vsched s None false PSelect) else None
        | Some _ => None
        end
      | PStepMain, CMarkDisp id =>
        match vs_last s with
        | Some t =>
          if String.eqb id (t_id t) then
            if cret_eqb r (RRes (RErr EOther)) && head_bound s id
            then Some (set_vsched s None false (PEnd (SDispatchErr t) false))   (* Pop failed: nothing popped *)
            else
            let (s', x) := v_mark_disp s id in
            if cret_eqb r (RRes x)
            then Some (if is_err_res x then set_vsched s' None false (PEnd (SDispatchErr t) false)
                       else set_vsched s' None false (PDisp2 KStep t))
            else None
          else None
        | None => None
        end
      | PDisp1 k t, CMarkDisp id =>
        if String.eqb id (t_id t) then
          if cret_eqb r (RRes (RErr EOther)) && head_bound s id
          then Some (set_vpc s (PEnd (SDispatchErr t) true))                    (* Pop failed: nothing popped *)
          else
          let (s', x) := v_mark_disp s id in
          if cret_eqb r (RRes x)
          then Some (if is_err_res x then set_vpc s' (PEnd (SDispatchErr t) true) else set_vpc s' (PDisp2 k t))
          else None
        else None
      | PDisp2 k t, CGetById id =>
        if String.eqb id (t_id t) then
          match rec_get (vs_record s) id with
          | Some t' => if cret_eqb r (RRes (RTask t')) then Some (vaccept s t') else None
          | None => if cret_eqb r (RRes (RErr EIdNotFound))
                    then Some (set_vpc s (PEnd (SDispatchErr t) (match k with KStep => false | KRetry => true end)))
                    else None
          end
        else None
      | PFire1, CGetNext =>
        match r with
        | RRes (RTask obs) =>
          match head_accept s obs with
          | Some (h, ids') =>
            Some (mkVS (vs_cron s) ids' (rec_set (vs_record s) (t_id obs) obs) now (vs_last s) (vs_err s) (PFire2 obs)
                       (vs_accepted s) (vs_running s) (vs_results s) (vs_starts s) (vs_retry s))
          | None => None
          end
        | RRes (RErr EExhausted) =>
          match pt_min None (cr_pending (vs_cron s)) with
          | None => Some (set_vsched s None true (PEnd (SNextTask false None) false))
          | Some _ => None
          end
        | _ => None
        end
      | PFire2 next, CNextSched =>
        let ns := next_scheduled (vs_cron s) in
        if cret_eqb r (RTime ns) then
          let agree := match ns with Some t => t_equal t (t_sched next) | None => false end in
          let due := negb (sc_clock_check sc) || negb (t_after (t_sched next) now) in
          if agree && due
          then Some (set_vsched s (Some next) false (PEnd (SNextTask true (Some next)) false))
          else Some (set_vsched s None (sc_err_on_mismatch sc) (PEnd (SNextTask false None) false))
        else None
      | PSelect, CMarkDone id e =>
        match vs_results s with
        | (id', o) :: rest =>
          if String.eqb id id' && negb (outcome_eqb o OCanceled)
             && match e, outcome_err o with Some a, Some b => String.eqb a b | None, None => true | _, _ => false end
             && cret_eqb r (RRes ROk)
          then Some (mkVS (vs_cron s) (vs_ids s) (rec_del (vs_record s) id) now (vs_last s) (vs_err s)
                          (PEnd (STaskDone id o false) false) (vs_accepted s) (vs_running s) rest (vs_starts s) (vs_retry s))
          else None
        | [] => None
        end
      | PRetryDE t, CGetById id =>
        if String.eqb id (t_id t) then
          match rec_get (vs_record s) id with
          | Some t' =>
            if cret_eqb r (RRes (RTask t')) then
              match t_state t' with
              | Scheduled =>
                if t_after (t_sched t') now then Some (set_vsched s None true (PEnd SNone false))
                else Some (set_vpc s (PDisp1 KRetry t'))
              | Dispatched => Some (set_vpc s (PDisp2 KRetry t'))
              | _ => Some (set_vpc s (PEnd SNone false))
              end
            else None
          | None =>
            if cret_eqb r (RRes (RErr EIdNotFound))
            then Some (set_vpc s (PEnd SNone false))   (* the task is gone: nothing left to dispatch (F18) *)
            else None
          end
        else None
      | _, _ => None
      end
    end.

  Fixpoint vsys_check (sc : scfg) (s : vsys) (tr : list vlabel) (i : nat) : option nat :=
    match tr with
    | [] => None
    | l :: r => match vsys_step sc s l with Some s' => vsys_check sc s' r (S i) | None => Some i end
    end.
  Fixpoint vsys_state_at (sc : scfg) (s : vsys) (tr : list vlabel) (i : nat) : vsys :=
    match i, tr with
    | O, _ => s
    | S j, l :: r => match vsys_step sc s l with Some s' => vsys_state_at sc s' r j | None => s end
    | _, [] => s
    end.
End WithSchedule.

Record vcase := mkVC { vc_tbl : ntable; vc_trace : list vlabel }.
Fixpoint vsys_mismatches (sc : scfg) (l : list vcase) (k : nat) : list (nat * nat) :=
  match l with
  | [] => []
  | x :: r => match vsys_check (nxt_of (vc_tbl x)) sc vsys_init (vc_trace x) 0 with
              | Some i => (k, i) :: vsys_mismatches sc r (S k)
              | None => vsys_mismatches sc r (S k)
              end
  end.
Definition vsys_expect (sc : scfg) (x : vcase) (i : nat) :=
  let s := vsys_state_at (nxt_of (vc_tbl x)) sc vsys_init (vc_trace x) i in
  (nth_error (vc_trace x) i, vs_pc s, vs_last s, vs_err s, cr_timer (vs_cron s), vs_now s,
   map (fun p => (pt_ins p, t_sched (pt_task p), t_work (pt_task p))) (cr_pending (vs_cron s)), vs_ids s,
   map fst (vs_record s), vs_results s, map fst (vs_accepted s), vs_running s).

(* predicates on the observed trace (configuration-independent parts of C03 / C04 / C05) *)
Fixpoint vstarts_of (tr : list vlabel) : list (string * gtime * task) :=
  match tr with [] => [] | VWorkStart id n snap :: r => (id, n, snap) :: vstarts_of r | _ :: r => vstarts_of r end.
Definition vc03_ok (tr : list vlabel) : bool :=
  forallb (fun x => match x with (_, n, snap) => inst (t_sched snap) <=? inst n end) (vstarts_of tr).
Definition vc04_ok (tr : list vlabel) : bool :=
  (fix nodup (seen : list string) (l : list (string * gtime * task)) : bool :=
     match l with [] => true | (id, _, _) :: r => negb (str_mem id seen) && nodup (id :: seen) r end) [] (vstarts_of tr).
Fixpoint vlast_dump (tr : list vlabel) : option (list task * gtime * bool) :=
  match tr with
  | [] => None
  | VDump l n b :: r => match vlast_dump r with Some x => Some x | None => Some (l, n, b) end
  | _ :: r => vlast_dump r
  end.
(* at quiescence the driver rests and no pending occurrence is due *)
Definition vc05_ok (tr : list vlabel) : bool :=
  match vlast_dump tr with
  | None => true
  | Some (pending, now, blocked) => blocked && forallb (fun t => negb (inst (t_sched t) <=? inst now)) pending
  end.
Definition vall_ok (tr : list vlabel) : bool := vc03_ok tr && vc04_ok tr && vc05_ok tr.
Fixpoint vtrace_violations (p : list vlabel -> bool) (l : list vcase) (k : nat) : list (nat * nat) :=
  match l with
  | [] => []
  | x :: r => if p (vc_trace x) then vtrace_violations p r (S k) else (k, O) :: vtrace_violations p r (S k)
  end.
