(* RepoCheck.v — executable acceptance of an observed history by the Repo specification.
   The harness prints (op, obs) pairs; [check_hist] replays them through [Repo.step]. *)
From GK Require Export Repo.

Record obs := mkObs {
  o_res : res;                               (* what the operation returned, projected *)
  o_diff : list (string * option task);      (* which stored tasks changed (GetById of every known id, before/after) *)
  o_next : option string                     (* id GetNext reports after the operation; None = exhausted *)
}.
Definition hist := list (op * obs).

Fixpoint tasks_eqb (a b : list task) : bool :=
  match a, b with
  | [], [] => true
  | x :: r, y :: r' => task_eqb x y && tasks_eqb r r'
  | _, _ => false
  end.
Definition otask_eqb (a b : option task) : bool :=
  match a, b with
  | Some x, Some y => task_eqb x y
  | None, None => true
  | _, _ => false
  end.
Definition res_eqb (a b : res) : bool :=
  match a, b with
  | ROk, ROk => true
  | RTask x, RTask y => task_eqb x y
  | RTasks x, RTasks y => tasks_eqb x y
  | RErr x, RErr y => err_eqb x y
  | _, _ => false
  end.

(* a minimum of the three documented keys among the scheduled tasks *)
Definition is_min3 (s : repo) (t : task) : bool :=
  is_sched t && forallb (fun u => negb (is_sched u && key_lt3 u t)) s.

Definition ids_nodup (l : list task) : bool :=
  (fix go (seen : list string) (l : list task) : bool :=
     match l with
     | [] => true
     | t :: r => negb (existsb (String.eqb (t_id t)) seen) && go (t_id t :: seen) r
     end) [] l.

(* ent's Find: ORDER BY created_at only; ties may come in any order, so a window cut inside a tie
   group may hold different members. Accept: same length, same created_at at every position,
   every element stored and matching, no repeats. *)
Definition find_accept_ent (c : cfg) (s : repo) (q : query) (expected got : list task) : bool :=
  Nat.eqb (List.length expected) (List.length got)
  && forallb (fun p => t_equal (t_created (fst p)) (t_created (snd p))) (combine expected got)
  && forallb (fun t => otask_eqb (lookup (t_id t) s) (Some t)
                       && q_match_gen (c_like_ci c) (norm_query (c_norm_deadline c) q) t) got
  && ids_nodup got.

Definition res_accept (c : cfg) (s : repo) (o : op) (expected got : res) : bool :=
  match o, expected, got with
  | ONext _, RTask _, RTask g =>
    if c_tie_free c then otask_eqb (lookup (t_id g) s) (Some g) && is_min3 s g else res_eqb expected got
  | OFind _ q _ _, RTasks e, RTasks g =>
    if c_find_by_created c then find_accept_ent c s q e g else res_eqb expected got
  | _, _, _ => res_eqb expected got
  end.

(* ids of s and s' whose stored value differs *)
Fixpoint ids_of (s : repo) : list string := match s with [] => [] | t :: r => t_id t :: ids_of r end.
Definition changed (s s' : repo) (id : string) : bool := negb (otask_eqb (lookup id s) (lookup id s')).
Fixpoint dedup (l : list string) : list string :=
  match l with
  | [] => []
  | x :: r => if existsb (String.eqb x) r then dedup r else x :: dedup r
  end.
Definition model_diff (s s' : repo) : list string :=
  filter (changed s s') (dedup (ids_of s ++ ids_of s')%list).
Definition diff_accept (s s' : repo) (d : list (string * option task)) : bool :=
  Nat.eqb (List.length (model_diff s s')) (List.length d)
  && forallb (fun p => changed s s' (fst p) && otask_eqb (lookup (fst p) s') (snd p)) d
  && Nat.eqb (List.length (dedup (map fst d))) (List.length d).

Definition next_accept (c : cfg) (s' : repo) (n : option string) : bool :=
  match n, get_next s' with
  | None, None => true
  | Some id, Some t =>
    if c_tie_free c then match lookup id s' with Some g => is_min3 s' g | None => false end
    else String.eqb id (t_id t)
  | _, _ => false
  end.

Definition check_step (c : cfg) (s : repo) (x : op * obs) : option repo :=
  let (o, ob) := x in
  let (s', r) := step c s o in
  if res_accept c s o r (o_res ob) && diff_accept s s' (o_diff ob) && next_accept c s' (o_next ob)
  then Some s' else None.

(* index of the first step that is not accepted *)
Fixpoint check_hist (c : cfg) (s : repo) (h : hist) (i : nat) : option nat :=
  match h with
  | [] => None
  | x :: r => match check_step c s x with
              | Some s' => check_hist c s' r (S i)
              | None => Some i
              end
  end.

Fixpoint mismatches_from (c : cfg) (cases : list hist) (k : nat) : list (nat * nat) :=
  match cases with
  | [] => []
  | h :: r => match check_hist c [] h 0 with
              | Some i => (k, i) :: mismatches_from c r (S k)
              | None => mismatches_from c r (S k)
              end
  end.
Definition mismatches (c : cfg) (cases : list hist) : list (nat * nat) := mismatches_from c cases 0.

(* for diagnostics: the model's expectation at step i of a history *)
Fixpoint state_at (c : cfg) (s : repo) (h : hist) (i : nat) : repo :=
  match i, h with
  | O, _ => s
  | S j, x :: r => state_at c (fst (step c s (fst x))) r j
  | _, [] => s
  end.
Definition expect_at (c : cfg) (h : hist) (i : nat) : option (op * res * list string * option string * obs) :=
  let s := state_at c [] h i in
  match nth_error h i with
  | Some (o, ob) =>
    let (s', r) := step c s o in
    Some (o, r, model_diff s s', omap t_id (get_next s'), ob)
  | None => None
  end.
