(* Findings.v — boolean signatures of the recorded known findings (known_findings.json).
   A violation is classified as a KNOWN-FINDING only if its signature holds on the observed
   history at the failing step; anything else is reported as a VIOLATION. *)
From GK Require Export PropCheck.

Fixpoint obs_state_at (s : repo) (h : hist) (i : nat) : repo :=
  match i, h with
  | O, _ => s
  | S j, (o, ob) :: r => obs_state_at (obs_next s o ob) r j
  | _, [] => s
  end.

Definition is_like (m : mapmatcher) : bool :=
  match mmt_get (mm_type m) with MForward | MBackward | MMiddle => true | _ => false end.
Definition matchers_of (q : query) : list mapmatcher :=
  (match q_param q with Some l => l | None => [] end) ++ (match q_meta q with Some l => l | None => [] end).

(* F4: ent/SQLite evaluates prefix / suffix / substring map matchers with LIKE, which is ASCII
   case-insensitive. Signature: an ent Find whose query has such a matcher and whose observed answer
   is exactly what the case-insensitive reading of the query yields on the observed contents. *)
Definition sig_F4 (c : cfg) (h : hist) (i : nat) : bool :=
  match nth_error h i with
  | Some (OFind ctx q off lim, ob) =>
    c_like_ci c && existsb is_like (matchers_of q)
    && match o_res ob with
       | RTasks g => let s := obs_state_at [] h i in find_accept_ent c s q (find c s q off lim) g
       | _ => false
       end
  | _ => false
  end.

(* F4b: JSON-path translation of map keys containing a quote or a bracket (ent sqljson.Path):
   SQL / JSON-path error, or a wrong answer. Signature: an ent Find with such a key. *)
Fixpoint has_char (s : string) (f : ascii -> bool) : bool :=
  match s with EmptyString => false | String a r => f a || has_char r f end.
Definition path_special (a : ascii) : bool :=
  let n := nat_of_ascii a in Nat.eqb n 39 || Nat.eqb n 34 || Nat.eqb n 91 || Nat.eqb n 93.
Definition sig_F4b (c : cfg) (h : hist) (i : nat) : bool :=
  match nth_error h i with
  | Some (OFind ctx q off lim, ob) =>
    c_find_by_created c && existsb (fun m => has_char (mm_key m) path_special) (matchers_of q)
  | _ => false
  end.
