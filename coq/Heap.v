(* Heap.v — the CONCRETE in-memory repository (no proofs here).

   Transliterates, statement by statement,
     container/heap                  (up, down, Push, Pop, Remove, Fix, Init),
     heapimpl.HeapWrapper / SliceInterface / FilterableHeap (Len, Less, Swap, Push, Pop, Peek),
     internal/sortable_task          (IndexedTask, Less, the swap / push / pop hooks, WrapTask),
     repository/inmemory             (InMemoryRepository and Save / Load).

   Representation.  Go heap elements are POINTERS ( *IndexedTask ) shared between the heap slice and
   the ordered map.  The model keeps the pointed-to objects in an arena ([arena : list itask], the
   handle of an object = its allocation number since the last [init()]), the heap slice is a list of
   handles ([harr]), and the ordered map is an association list  key -> handle  in insertion order.
   [it_index] is the real [Index] field: the hooks WRITE it and UpdateById / Cancel /
   MarkAsDispatched READ it to call Fix / Remove.

   Faults.  Every function that indexes a slice or dereferences a handle is option-valued:
   [None] = "Go would panic (index out of range), or would be handed a stale / negative Index, or the
   explicit fuel of a loop ran out".  Proofs/HeapProofs.v shows that [None] is unreachable from the
   empty repository.  Integer overflow (the [j1 < 0] test of [down], the uint64 counter) is not
   modelled: positions, handles and insertion numbers are unbounded naturals. *)
From GK Require Export Base Query Repo.
Local Open Scope nat_scope.

Definition bind {A B} (o : option A) (f : A -> option B) : option B :=
  match o with Some a => f a | None => None end.
Notation "'do' x <- e ; k" := (bind e (fun x => k)) (at level 200, x name, e at level 100, k at level 200).

(* l[k] = x (no-op when out of range; every use is guarded by an nth_error on the same index) *)
Fixpoint upd {A} (l : list A) (k : nat) (x : A) : list A :=
  match l with
  | [] => []
  | y :: r => match k with 0 => x :: r | S k' => y :: upd r k' x end
  end.

(* ---------- sortabletask.IndexedTask ---------- *)
Record itask := IT { it_task : task; it_index : Z; it_ins : nat }.
Definition dit : itask := IT zero_task 0%Z 0.

(* sortabletask.Less *)
Definition iless (i j : itask) : bool :=
  if negb (t_equal (t_sched (it_task i)) (t_sched (it_task j)))
  then t_before (t_sched (it_task i)) (t_sched (it_task j))
  else if negb (t_prio (it_task i) =? t_prio (it_task j))%Z
  then (t_prio (it_task j) <? t_prio (it_task i))%Z          (* i.Priority() > j.Priority() *)
  else if negb (t_equal (t_created (it_task i)) (t_created (it_task j)))
  then t_before (t_created (it_task i)) (t_created (it_task j))
  else it_ins i <? it_ins j.

(* ---------- the heap: shared objects + the slice of pointers ---------- *)
Record hp := HP { arena : list itask; harr : list nat }.

(* SliceInterface.Len *)
Definition hlen (h : hp) : nat := List.length (harr h).

(* ( *slice )[k], dereferenced *)
Definition hget (h : hp) (k : nat) : option itask :=
  do hd <- nth_error (harr h) k; nth_error (arena h) hd.

(* SliceInterface.Less(i, j) = less(Inner[i], Inner[j]) *)
Definition hless (h : hp) (i j : nat) : option bool :=
  do a <- hget h i; do b <- hget h j; Some (iless a b).

(* p.SetIndex(i) *)
Definition set_index (a : list itask) (hd : nat) (i : Z) : option (list itask) :=
  do e <- nth_error a hd; Some (upd a hd (IT (it_task e) i (it_ins e))).

(* sortabletask.swap:
     ( *slice )[i], ( *slice )[j] = ( *slice )[j], ( *slice )[i]
     ( *slice )[i].SetIndex(i)
     ( *slice )[j].SetIndex(j)                                   *)
Definition hswap (h : hp) (i j : nat) : option hp :=
  do x <- nth_error (harr h) i;
  do y <- nth_error (harr h) j;
  let arr := upd (upd (harr h) i y) j x in
  do p <- nth_error arr i;
  do a1 <- set_index (arena h) p (Z.of_nat i);
  do q <- nth_error arr j;
  do a2 <- set_index a1 q (Z.of_nat j);
  Some (HP a2 arr).

(* sortabletask.push:  v.SetIndex(slice.Len()); slice.Push(v) *)
Definition hook_push (h : hp) (v : nat) : option hp :=
  do a1 <- set_index (arena h) v (Z.of_nat (hlen h));
  Some (HP a1 (harr h ++ [v])).

(* sortabletask.pop:  popped, ok := slice.Pop(); if !ok { panic }; popped.SetIndex(-1); return popped *)
Definition hook_pop (h : hp) : option (hp * nat) :=
  let n := hlen h in
  if n =? 0 then None
  else
    do v <- nth_error (harr h) (n - 1);
    do a1 <- set_index (arena h) v (-1)%Z;
    Some (HP a1 (firstn (n - 1) (harr h)), v).

(* ---------- container/heap ---------- *)
(* func up(h, j):  for { i := (j-1)/2; if i == j || !h.Less(j, i) { break }; h.Swap(i, j); j = i }
   ((0-1)/2 = 0 both in Go (truncation) and on naturals) *)
Fixpoint up (fuel : nat) (h : hp) (j : nat) : option hp :=
  match fuel with
  | 0 => None
  | S f =>
    let i := (j - 1) / 2 in
    if i =? j then Some h
    else
      do lt <- hless h j i;
      if negb lt then Some h
      else do h' <- hswap h i j; up f h' i
  end.

(* func down(h, i0, n) bool: the loop, returning the final i *)
Fixpoint down_loop (fuel : nat) (h : hp) (i n : nat) : option (hp * nat) :=
  match fuel with
  | 0 => None
  | S f =>
    let j1 := 2 * i + 1 in
    if n <=? j1 then Some (h, i)                                     (* j1 >= n: break *)
    else
      do b <- (if j1 + 1 <? n then hless h (j1 + 1) j1 else Some false);  (* j2 < n && h.Less(j2, j1) *)
      let j := if b then j1 + 1 else j1 in
      do lt <- hless h j i;
      if negb lt then Some (h, i)                                    (* !h.Less(j, i): break *)
      else do h' <- hswap h i j; down_loop f h' j n
  end.
Definition down (fuel : nat) (h : hp) (i0 n : nat) : option (hp * bool) :=
  do r <- down_loop fuel h i0 n; Some (fst r, i0 <? snd r).         (* return i > i0 *)

(* enough for every loop above: up needs j+1 <= Len iterations, down at most n - i + 1 <= Len + 1 *)
Definition fuel_of (h : hp) : nat := S (hlen h).

(* heap.Push:  h.Push(x); up(h, h.Len()-1) *)
Definition hpush (h : hp) (v : nat) : option hp :=
  do h1 <- hook_push h v; up (fuel_of h1) h1 (hlen h1 - 1).

(* heap.Pop:  n := h.Len() - 1; h.Swap(0, n); down(h, 0, n); return h.Pop() *)
Definition hpop (h : hp) : option (hp * nat) :=
  let n := hlen h - 1 in
  do h1 <- hswap h 0 n;
  do r <- down (fuel_of h1) h1 0 n;
  hook_pop (fst r).

(* heap.Remove:  n := h.Len() - 1; if n != i { h.Swap(i, n); if !down(h, i, n) { up(h, i) } }; return h.Pop() *)
Definition hremove (h : hp) (i : nat) : option (hp * nat) :=
  if hlen h =? 0 then None          (* n = -1: Swap(i, -1) or Pop on the empty slice panics *)
  else
    let n := hlen h - 1 in
    do h1 <- (if n =? i then Some h
              else
                do h1 <- hswap h i n;
                do r <- down (fuel_of h1) h1 i n;
                if snd r then Some (fst r) else up (fuel_of (fst r)) (fst r) i);
    hook_pop h1.

(* heap.Fix:  if !down(h, i, h.Len()) { up(h, i) } *)
Definition hfix (h : hp) (i : nat) : option hp :=
  do r <- down (fuel_of h) h i (hlen h);
  if snd r then Some (fst r) else up (fuel_of (fst r)) (fst r) i.

(* heap.Init:  n := h.Len(); for i := n/2 - 1; i >= 0; i-- { down(h, i, n) } *)
Fixpoint init_loop (k : nat) (h : hp) (n : nat) : option hp :=
  match k with
  | 0 => Some h
  | S k' => do r <- down (fuel_of h) h k' n; init_loop k' (fst r) n
  end.
Definition hinit (h : hp) : option hp := init_loop (hlen h / 2) h (hlen h).

(* FilterableHeap.Peek (on a non-empty heap) *)
Definition hpeek (h : hp) : option itask := hget h 0.

(* ---------- repository/inmemory ---------- *)
(* orderedMap: key -> handle, in insertion order; Set on an existing key keeps its position *)
Definition omap_t := list (string * nat).
Fixpoint map_get (m : omap_t) (k : string) : option nat :=
  match m with
  | [] => None
  | (k', v) :: r => if String.eqb k k' then Some v else map_get r k
  end.
Fixpoint map_set (m : omap_t) (k : string) (v : nat) : omap_t :=
  match m with
  | [] => [(k, v)]
  | (k', v') :: r => if String.eqb k k' then (k, v) :: r else (k', v') :: map_set r k v
  end.

Record crepo := CR { c_hp : hp; c_map : omap_t; c_count : nat }.

(* NewInMemoryRepository / init() *)
Definition cinit : crepo := CR (HP [] []) [] 0.

(* sortabletask.WrapTask: &IndexedTask{Task: &task, InsertionOrder: count.Add(1)}  (Index: 0) *)
Definition wrap (c : crepo) (t : task) : crepo * nat :=
  let a := arena (c_hp c) in
  (CR (HP (a ++ [IT t 0%Z (S (c_count c))]) (harr (c_hp c))) (c_map c) (S (c_count c)),
   List.length a).

(* in-place mutation of *task.Task *)
Definition mut_task (h : hp) (hd : nat) (f : task -> task) : option hp :=
  do e <- nth_error (arena h) hd;
  Some (HP (upd (arena h) hd (IT (f (it_task e)) (it_index e) (it_ins e))) (harr h)).

(* task.Index as a slice index (a negative int panics in Less / Swap) *)
Definition index_nat (z : Z) : option nat := if (z <? 0)%Z then None else Some (Z.to_nat z).

Definition with_hp (c : crepo) (h : hp) : crepo := CR h (c_map c) (c_count c).

(* the tasks in map order (Find, Save) *)
Fixpoint deref_all (a : list itask) (m : omap_t) : option (list task) :=
  match m with
  | [] => Some []
  | (_, hd) :: r => do e <- nth_error a hd; do l <- deref_all a r; Some (it_task e :: l)
  end.

Definition res_of_err (e : option err) : res := match e with Some x => RErr x | None => ROk end.

(* Load's loop body: wrapped := WrapTask(...); if State == Scheduled { heap.Push(wrapped) }; orderedMap.Set(Key, wrapped) *)
Definition cload_one (c : crepo) (t : task) : option crepo :=
  let c1 := fst (wrap c t) in
  let v := snd (wrap c t) in
  do h1 <- (if state_eqb (t_state t) Scheduled then hpush (c_hp c1) v else Some (c_hp c1));
  Some (CR h1 (map_set (c_map c1) (t_id t) v) (c_count c1)).
Fixpoint cload_loop (c : crepo) (kv : list task) : option crepo :=
  match kv with
  | [] => Some c
  | t :: r => do c1 <- cload_one c t; cload_loop c1 r
  end.

(* Cancel / MarkAsDispatched after the state check: heap.Remove(task.Index), then the in-place state change *)
Definition cremove_then (c : crepo) (hd : nat) (e : itask) (f : task -> task) : option (crepo * res) :=
  do i <- index_nat (it_index e);
  do r <- hremove (c_hp c) i;
  do h2 <- mut_task (fst r) hd f;
  Some (with_hp c h2, ROk).

Definition cstep_opt (c : crepo) (o : op) : option (crepo * res) :=
  match o with
  | OAdd ctx now fresh p =>
    let p := norm_uparam p in
    if ctx then Some (c, RErr ECtx)
    else
      let t := to_task p fresh now in
      if negb (is_valid t) then Some (c, RErr EInvalidTask)
      else
        let c1 := fst (wrap c t) in
        let v := snd (wrap c t) in
        do h1 <- hpush (c_hp c1) v;
        Some (CR h1 (map_set (c_map c1) (t_id t) v) (c_count c1), RTask t)
  | OGet ctx id =>
    if ctx then Some (c, RErr ECtx)
    else match map_get (c_map c) id with
         | None => Some (c, RErr EIdNotFound)
         | Some hd => do e <- nth_error (arena (c_hp c)) hd; Some (c, RTask (it_task e))
         end
  | OUpdate ctx id p =>
    let p := norm_uparam p in
    if ctx then Some (c, RErr ECtx)
    else match map_get (c_map c) id with
         | None => Some (c, RErr EIdNotFound)
         | Some hd =>
           do e <- nth_error (arena (c_hp c)) hd;
           if negb (state_eqb (t_state (it_task e)) Scheduled)
           then Some (c, res_of_err (err_kind_update (it_task e)))
           else
             let updated := task_update (it_task e) p in
             if negb (is_valid updated) then Some (c, RErr EInvalidTask)
             else
               do h1 <- mut_task (c_hp c) hd (fun _ => updated);     (* *(task.Task) = updated *)
               do e1 <- nth_error (arena h1) hd;
               do i <- index_nat (it_index e1);
               do h2 <- hfix h1 i;                                    (* r.heap.Fix(task.Index) *)
               Some (with_hp c h2, ROk)
         end
  | OCancel ctx now id =>
    if ctx then Some (c, RErr ECtx)
    else match map_get (c_map c) id with
         | None => Some (c, RErr EIdNotFound)
         | Some hd =>
           do e <- nth_error (arena (c_hp c)) hd;
           if negb (state_eqb (t_state (it_task e)) Scheduled)
           then Some (c, res_of_err (err_kind_cancel (it_task e)))
           else cremove_then c hd e (fun t => set_cancelled t now)
         end
  | ODispatch ctx now id =>
    if ctx then Some (c, RErr ECtx)
    else match map_get (c_map c) id with
         | None => Some (c, RErr EIdNotFound)
         | Some hd =>
           do e <- nth_error (arena (c_hp c)) hd;
           if negb (state_eqb (t_state (it_task e)) Scheduled)
           then Some (c, res_of_err (err_kind_dispatch (it_task e)))
           else cremove_then c hd e (fun t => set_dispatched t now)
         end
  | ODone ctx now id er =>
    if ctx then Some (c, RErr ECtx)
    else match map_get (c_map c) id with
         | None => Some (c, RErr EIdNotFound)
         | Some hd =>
           do e <- nth_error (arena (c_hp c)) hd;
           if negb (state_eqb (t_state (it_task e)) Dispatched)
           then Some (c, res_of_err (err_kind_done (it_task e)))
           else do h1 <- mut_task (c_hp c) hd (fun t => set_done t now er); Some (with_hp c h1, ROk)
         end
  | OFind _ q offset limit =>
    let q := norm_query true q in
    do l <- deref_all (arena (c_hp c)) (c_map c);
    Some (c, RTasks (find_loop_gen (q_match q) l offset limit))
  | ONext _ =>
    if hlen (c_hp c) =? 0 then Some (c, RErr EExhausted)
    else do e <- hpeek (c_hp c); Some (c, RTask (it_task e))
  | OLoad kv =>
    if forallb is_valid kv
    then do c' <- cload_loop cinit kv; Some (c', ROk)               (* r.init(); for ... *)
    else Some (c, RErr EInvalidTask)
  | ORevert | OCancelDispatched _ | ODeleteEnded => Some (c, RErr EOther)   (* not part of the in-memory repository *)
  end.

(* the operations the in-memory repository has *)
Definition inmem_op (o : op) : bool :=
  match o with ORevert | OCancelDispatched _ | ODeleteEnded => false | _ => true end.

(* total version: a fault leaves the state alone and reports EOther (proved unreachable) *)
Definition cstep (c : crepo) (o : op) : crepo * res :=
  match cstep_opt c o with Some x => x | None => (c, RErr EOther) end.

Definition crun_from (c : crepo) (ops : list op) : crepo := fold_left (fun c o => fst (cstep c o)) ops c.
Definition crun (ops : list op) : crepo := crun_from cinit ops.
Fixpoint coutputs (c : crepo) (ops : list op) : list res :=
  match ops with
  | [] => []
  | o :: r => snd (cstep c o) :: coutputs (fst (cstep c o)) r
  end.

(* Save: the tasks in map order *)
Definition csave_opt (c : crepo) : option (list task) := deref_all (arena (c_hp c)) (c_map c).
Definition csave (c : crepo) : list task := match csave_opt c with Some l => l | None => [] end.
(* Load into a fresh repository *)
Definition load_fresh (kv : list task) : crepo := fst (cstep cinit (OLoad kv)).

(* ---------- what the harness compares with VerifProbe ---------- *)
Definition heap_entries (c : crepo) : list itask := map (fun hd => nth hd (arena (c_hp c)) dit) (harr (c_hp c)).
Definition heap_ids (c : crepo) : list string := map (fun e => t_id (it_task e)) (heap_entries c).
Definition heap_indices (c : crepo) : list Z := map it_index (heap_entries c).
Definition heap_ins (c : crepo) : list nat := map it_ins (heap_entries c).
(* the map in order: key, Index, InsertionOrder *)
Definition map_entries (c : crepo) : list (string * Z * nat) :=
  map (fun kv => let e := nth (snd kv) (arena (c_hp c)) dit in (fst kv, it_index e, it_ins e)) (c_map c).
