(* Query.v — TaskQueryParam, matchers (def/task_param.go), no proofs. *)
From GK Require Export Base.

(* strings.HasPrefix / HasSuffix / Contains as structural recursion *)
Fixpoint has_prefix (s p : string) : bool :=
  match p with
  | EmptyString => true
  | String c p' => match s with
                   | EmptyString => false
                   | String d s' => Ascii.eqb c d && has_prefix s' p'
                   end
  end.
Fixpoint contains (s p : string) : bool :=
  has_prefix s p || match s with EmptyString => false | String _ s' => contains s' p end.
Fixpoint has_suffix (s p : string) : bool :=
  String.eqb s p || match s with EmptyString => false | String _ s' => has_suffix s' p end.

(* mapMatchType.Get: unknown strings fall back to Exact *)
Inductive mmt := MHasKey | MExact | MForward | MBackward | MMiddle.
Definition mmt_get (raw : string) : mmt :=
  if String.eqb raw "HasKey" then MHasKey
  else if String.eqb raw "Exact" then MExact
  else if String.eqb raw "Forward" then MForward
  else if String.eqb raw "Backward" then MBackward
  else if String.eqb raw "Middle" then MMiddle
  else MExact.

Record mapmatcher := MM { mm_key : string; mm_value : string; mm_type : string }.

(* ASCII lower-casing: what SQLite's LIKE compares modulo (DESIGN.md F4) *)
Definition ascii_lower (a : ascii) : ascii :=
  let n := nat_of_ascii a in
  if (Nat.leb 65 n && Nat.leb n 90)%bool then ascii_of_nat (n + 32) else a.
Fixpoint str_lower (s : string) : string :=
  match s with EmptyString => EmptyString | String a r => String (ascii_lower a) (str_lower r) end.
Definition fold_ci (ci : bool) (s : string) : string := if ci then str_lower s else s.

(* [ci]: prefix / suffix / substring matchers compare ASCII-case-insensitively (ent on SQLite);
   the documented rule, and the in-memory repository, is ci = false *)
Definition mm_match_gen (ci : bool) (m : mapmatcher) (mm : smap) : bool :=
  match mmt_get (mm_type m) with
  | MHasKey => is_some (sm_get mm (mm_key m))
  | MExact => match sm_get mm (mm_key m) with Some v => String.eqb v (mm_value m) | None => false end
  | MForward => match sm_get mm (mm_key m) with Some v => has_prefix (fold_ci ci v) (fold_ci ci (mm_value m)) | None => false end
  | MBackward => match sm_get mm (mm_key m) with Some v => has_suffix (fold_ci ci v) (fold_ci ci (mm_value m)) | None => false end
  | MMiddle => match sm_get mm (mm_key m) with Some v => contains (fold_ci ci v) (fold_ci ci (mm_value m)) | None => false end
  end.
Definition mm_match := mm_match_gen false.

Definition mms_match_gen (ci : bool) (l : list mapmatcher) (mm : smap) : bool := forallb (fun m => mm_match_gen ci m mm) l.
Definition mms_match := mms_match_gen false.

(* timeMatchType.Get: unknown strings fall back to Equal *)
Inductive tmt := TNonNull | TEqual | TBefore | TBeforeEqual | TAfter | TAfterEqual.
Definition tmt_get (raw : string) : tmt :=
  if String.eqb raw "NonNull" then TNonNull
  else if String.eqb raw "Equal" then TEqual
  else if String.eqb raw "Before" then TBefore
  else if String.eqb raw "BeforeEqual" then TBeforeEqual
  else if String.eqb raw "After" then TAfter
  else if String.eqb raw "AfterEqual" then TAfterEqual
  else TEqual.

Record timematcher := TM { tm_type : string; tm_value : gtime }.

(* TimeMatcher.Match(v *time.Time): m.Value.Compare( *v ) ... *)
Definition tm_match (m : timematcher) (v : option gtime) : bool :=
  match tmt_get (tm_type m) with
  | TNonNull => is_some v
  | ty =>
    match v with
    | None => false
    | Some x =>
      match ty with
      | TEqual => t_equal (tm_value m) x
      | TBefore => inst x <? inst (tm_value m)
      | TBeforeEqual => inst x <=? inst (tm_value m)
      | TAfter => inst (tm_value m) <? inst x
      | TAfterEqual => inst (tm_value m) <=? inst x
      | TNonNull => true
      end
    end
  end.

Record query := mkQ {
  q_id : option string; q_work : option string; q_prio : option Z; q_state : option state;
  q_err : option string; q_param : option (list mapmatcher); q_meta : option (list mapmatcher);
  q_sched : option timematcher; q_created : option timematcher;
  q_deadline : option (option timematcher); q_cancelled : option (option timematcher);
  q_dispatched : option (option timematcher); q_done : option (option timematcher) }.

Definition q_all : query := mkQ None None None None None None None None None None None None None.

Definition match_cmp {A} (eqb : A -> A -> bool) (v : A) (m : option A) : bool :=
  match m with None => true | Some x => eqb v x end.
Definition match_map_gen (ci : bool) (v : smap) (m : option (list mapmatcher)) : bool :=
  match m with None => true | Some l => mms_match_gen ci l v end.
Definition match_map := match_map_gen false.
Definition match_time (v : gtime) (m : option timematcher) : bool :=
  match m with None => true | Some tm => tm_match tm (Some v) end.
Definition match_opt_time (v : option gtime) (m : option (option timematcher)) : bool :=
  match m with
  | None => true
  | Some None => is_none v
  | Some (Some tm) => tm_match tm v
  end.

(* TaskQueryParam.Match *)
Definition q_match_gen (ci : bool) (q : query) (t : task) : bool :=
  match_cmp String.eqb (t_id t) (q_id q) && match_cmp String.eqb (t_work t) (q_work q)
  && match_cmp Z.eqb (t_prio t) (q_prio q) && match_cmp state_eqb (t_state t) (q_state q)
  && match_cmp String.eqb (t_err t) (q_err q)
  && match_map_gen ci (t_param t) (q_param q) && match_map_gen ci (t_meta t) (q_meta q)
  && match_time (t_sched t) (q_sched q) && match_time (t_created t) (q_created q)
  && match_opt_time (t_deadline t) (q_deadline q) && match_opt_time (t_cancelled t) (q_cancelled q)
  && match_opt_time (t_dispatched t) (q_dispatched q) && match_opt_time (t_done t) (q_done q).

Definition q_match := q_match_gen false.

Definition norm_tm (m : timematcher) : timematcher := TM (tm_type m) (norm (tm_value m)).

(* TaskQueryParam.Normalize. [deadline_too] = whether the Deadline operand is normalized as well
   (the pinned source forgot it; see DESIGN.md F3). *)
Definition norm_query (deadline_too : bool) (q : query) : query :=
  mkQ (q_id q) (q_work q) (q_prio q) (q_state q) (q_err q) (q_param q) (q_meta q)
      (omap norm_tm (q_sched q)) (omap norm_tm (q_created q))
      (if deadline_too then omap (omap norm_tm) (q_deadline q) else q_deadline q)
      (omap (omap norm_tm) (q_cancelled q))
      (omap (omap norm_tm) (q_dispatched q)) (omap (omap norm_tm) (q_done q)).

(* the counter loop of InMemoryRepository.Find *)
Fixpoint find_loop_gen (m : task -> bool) (l : list task) (offset limit : Z) : list task :=
  match l with
  | [] => []
  | t :: r =>
    if m t then
      if negb (offset =? 0) then find_loop_gen m r (offset - 1) limit
      else if limit =? 0 then []
      else t :: find_loop_gen m r offset (if 0 <? limit then limit - 1 else limit)
    else find_loop_gen m r offset limit
  end.
Definition find_loop (q : query) := find_loop_gen (q_match q).

(* declarative window: skip [offset], take [limit] (negative = all) *)
Definition window (offset limit : Z) (l : list task) : list task :=
  let l' := skipn (Z.to_nat offset) l in
  if limit <? 0 then l' else firstn (Z.to_nat limit) l'.
