(* Repo.v — the sequential specification of a def.Repository (+ Save/Load, RevertDispatched,
   CancelDispatched, DeleteEnded), parameterised by a [cfg] record that captures the
   differences between repository/inmemory and repository/ent which the properties leave open.
   No proofs here. *)
From GK Require Export Base Query.

Record cfg := mkCfg {
  c_add_valid_first : bool;  (* AddTask: validity checked before the context (ent) *)
  c_upd_valid_first : bool;  (* UpdateById: validity checked before ctx / id / state (ent) *)
  c_find_ctx : bool;         (* Find fails on a cancelled context (ent) *)
  c_next_ctx : bool;         (* GetNext fails on a cancelled context (ent) *)
  c_find_by_created : bool;  (* Find orders by created_at (ent) instead of insertion order (inmemory) *)
  c_tie_free : bool;         (* GetNext may return any minimum of (time, priority, created_at) (ent) *)
  c_norm_deadline : bool;    (* TaskQueryParam.Normalize covers Deadline *)
  c_like_ci : bool           (* prefix/suffix/substring map matchers are ASCII-case-insensitive
                                (ent on SQLite: LIKE) — known finding F4, contradicts the documented rule *)
}.
Definition cfg_inmem : cfg := mkCfg false false false false false false true false.
Definition cfg_ent : cfg := mkCfg true true true true true true true true.
(* what ent should do according to the documented matching rules *)
Definition cfg_ent_doc : cfg := mkCfg true true true true true true true false.

(* a repository: the stored tasks in insertion order *)
Definition repo := list task.

Fixpoint lookup (id : string) (s : repo) : option task :=
  match s with
  | [] => None
  | t :: r => if String.eqb id (t_id t) then Some t else lookup id r
  end.
Fixpoint replace (t' : task) (s : repo) : repo :=
  match s with
  | [] => []
  | t :: r => if String.eqb (t_id t') (t_id t) then t' :: r else t :: replace t' r
  end.

(* ---- next-task order: scheduled time, higher priority, creation time, then position ---- *)
Definition key_lt3 (a b : task) : bool :=
  if negb (t_equal (t_sched a) (t_sched b)) then t_before (t_sched a) (t_sched b)
  else if negb (t_prio a =? t_prio b) then t_prio b <? t_prio a
  else t_before (t_created a) (t_created b).
Definition is_sched (t : task) : bool := state_eqb (t_state t) Scheduled.
(* first strict minimum in list order = FIFO among full ties *)
Fixpoint min_task (best : option task) (l : list task) : option task :=
  match l with
  | [] => best
  | t :: r =>
    if is_sched t then
      match best with
      | None => min_task (Some t) r
      | Some b => if key_lt3 t b then min_task (Some t) r else min_task best r
      end
    else min_task best r
  end.
Definition get_next (s : repo) : option task := min_task None s.

(* ---- operations ---- *)
Inductive op :=
| OAdd (ctx : bool) (now : gtime) (fresh : string) (p : uparam)
| OGet (ctx : bool) (id : string)
| OUpdate (ctx : bool) (id : string) (p : uparam)
| OCancel (ctx : bool) (now : gtime) (id : string)
| ODispatch (ctx : bool) (now : gtime) (id : string)
| ODone (ctx : bool) (now : gtime) (id : string) (e : option string)
| OFind (ctx : bool) (q : query) (offset limit : Z)
| ONext (ctx : bool)
| ORevert
| OCancelDispatched (now : gtime)
| ODeleteEnded
| OLoad (kv : list task).

Inductive res :=
| ROk
| RTask (t : task)
| RTasks (l : list task)
| RErr (e : err).

(* the throw-away task ent validates updates against *)
Definition fake_task : task :=
  mkTask "%%%%$$$$%%%%$$$$%%%%$$$$" "foo" 0 Scheduled "" [("foo", "bar")] [("baz", "qux")]
         (T 1000000 true) (T 2000000 true) None None None None.
Definition invalid_update (p : uparam) : bool := negb (is_valid (task_update fake_task p)).

Definition set_cancelled (t : task) (now : gtime) : task :=
  mkTask (t_id t) (t_work t) (t_prio t) Cancelled (t_err t) (t_param t) (t_meta t) (t_sched t)
         (t_created t) (t_deadline t) (Some (norm now)) (t_dispatched t) (t_done t).
Definition set_dispatched (t : task) (now : gtime) : task :=
  mkTask (t_id t) (t_work t) (t_prio t) Dispatched (t_err t) (t_param t) (t_meta t) (t_sched t)
         (t_created t) (t_deadline t) (t_cancelled t) (Some (norm now)) (t_done t).
Definition set_done (t : task) (now : gtime) (e : option string) : task :=
  mkTask (t_id t) (t_work t) (t_prio t) (match e with None => Done | Some _ => Err end)
         (match e with None => t_err t | Some x => x end) (t_param t) (t_meta t) (t_sched t)
         (t_created t) (t_deadline t) (t_cancelled t) (t_dispatched t) (Some (norm now)).
(* RevertDispatched: back to scheduled, dispatched_at cleared *)
Definition undispatch (t : task) : task :=
  if state_eqb (t_state t) Dispatched then
    mkTask (t_id t) (t_work t) (t_prio t) Scheduled (t_err t) (t_param t) (t_meta t) (t_sched t)
           (t_created t) (t_deadline t) (t_cancelled t) None (t_done t)
  else t.
Definition cancel_if_dispatched (now : gtime) (t : task) : task :=
  if state_eqb (t_state t) Dispatched then set_cancelled t now else t.
Definition is_ended (t : task) : bool :=
  state_eqb (t_state t) Cancelled || state_eqb (t_state t) Done || state_eqb (t_state t) Err.

(* stable insertion sort by created_at (ent's ORDER BY created_at; ties keep insertion order) *)
Fixpoint ins_created (t : task) (l : list task) : list task :=
  match l with
  | [] => [t]
  | x :: r => if t_before (t_created t) (t_created x) then t :: l else x :: ins_created t r
  end.
Definition sort_created (l : list task) : list task := fold_left (fun acc t => ins_created t acc) l [].

Definition find (c : cfg) (s : repo) (q : query) (offset limit : Z) : list task :=
  find_loop_gen (q_match_gen (c_like_ci c) (norm_query (c_norm_deadline c) q))
            (if c_find_by_created c then sort_created s else s) offset limit.

Definition guarded (t : task) (want : state) (ek : task -> option err) (s : repo) (upd : task) : repo * res :=
  if negb (state_eqb (t_state t) want) then
    match ek t with Some e => (s, RErr e) | None => (s, ROk) end
  else (replace upd s, ROk).

Definition step (c : cfg) (s : repo) (o : op) : repo * res :=
  match o with
  | OAdd ctx now fresh p =>
    let t := to_task (norm_uparam p) fresh now in
    if c_add_valid_first c then
      if negb (is_valid t) then (s, RErr EInvalidTask)
      else if ctx then (s, RErr ECtx) else ((s ++ [t])%list, RTask t)
    else
      if ctx then (s, RErr ECtx)
      else if negb (is_valid t) then (s, RErr EInvalidTask) else ((s ++ [t])%list, RTask t)
  | OGet ctx id =>
    if ctx then (s, RErr ECtx)
    else match lookup id s with Some t => (s, RTask t) | None => (s, RErr EIdNotFound) end
  | OUpdate ctx id p =>
    if c_upd_valid_first c && invalid_update p then (s, RErr EInvalidTask)
    else if ctx then (s, RErr ECtx)
    else match lookup id s with
         | None => (s, RErr EIdNotFound)
         | Some t =>
           if negb (state_eqb (t_state t) Scheduled) then
             match err_kind_update t with Some e => (s, RErr e) | None => (s, ROk) end
           else
             let t' := task_update t (norm_uparam p) in
             if negb (is_valid t') then (s, RErr EInvalidTask) else (replace t' s, ROk)
         end
  | OCancel ctx now id =>
    if ctx then (s, RErr ECtx)
    else match lookup id s with
         | None => (s, RErr EIdNotFound)
         | Some t => guarded t Scheduled err_kind_cancel s (set_cancelled t now)
         end
  | ODispatch ctx now id =>
    if ctx then (s, RErr ECtx)
    else match lookup id s with
         | None => (s, RErr EIdNotFound)
         | Some t => guarded t Scheduled err_kind_dispatch s (set_dispatched t now)
         end
  | ODone ctx now id e =>
    if ctx then (s, RErr ECtx)
    else match lookup id s with
         | None => (s, RErr EIdNotFound)
         | Some t => guarded t Dispatched err_kind_done s (set_done t now e)
         end
  | OFind ctx q offset limit =>
    if c_find_ctx c && ctx then (s, RErr ECtx) else (s, RTasks (find c s q offset limit))
  | ONext ctx =>
    if c_next_ctx c && ctx then (s, RErr ECtx)
    else match get_next s with Some t => (s, RTask t) | None => (s, RErr EExhausted) end
  | ORevert => (map undispatch s, ROk)
  | OCancelDispatched now => (map (cancel_if_dispatched now) s, ROk)
  | ODeleteEnded => (filter (fun t => negb (is_ended t)) s, ROk)
  | OLoad kv =>
    if forallb is_valid kv then (kv, ROk) else (s, RErr EInvalidTask)
  end.

Definition run_from (c : cfg) (s : repo) (ops : list op) : repo :=
  fold_left (fun s o => fst (step c s o)) ops s.
Definition run (c : cfg) (ops : list op) : repo := run_from c [] ops.
Fixpoint outputs (c : cfg) (s : repo) (ops : list op) : list res :=
  match ops with
  | [] => []
  | o :: r => let (s', x) := step c s o in x :: outputs c s' r
  end.
