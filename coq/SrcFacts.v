(* SrcFacts.v — the vocabulary of the facts tools/go2coq extracts from the Go source on every run, and the
   obligations those facts must meet (see DESIGN.md §4). The two mechanisms property C10 is anchored in:
   "every method body of the in-memory repository runs under r.mu" and "one conditional UPDATE per transition
   (the database does the compare-and-set)" on ent. No proofs here (Proofs/SrcProofs.v). *)
From GK Require Export Repo.

(* ---------- in-memory repository: lock discipline ---------- *)
Inductive lock_kind := LNone | LExcl | LRead.
Record lock_fact := mkLF {
  lf_name : string;         (* method of *InMemoryRepository *)
  lf_lock : lock_kind;      (* the first top-level r.mu.Lock() / r.mu.RLock() statement *)
  lf_deferred : bool;       (* the very next statement is the matching deferred unlock *)
  lf_pre : list string      (* receiver fields mentioned before that statement (all of them if there is none) *)
}.
Definition inmem_mutators : list string := ["AddTask"; "UpdateById"; "Cancel"; "MarkAsDispatched"; "MarkAsDone"; "Load"].
Definition inmem_readers : list string := ["GetById"; "Find"; "GetNext"; "Save"].
(* the state the operations of Repo.step read and write *)
Definition inmem_shared : list string := ["heap"; "orderedMap"; "insertionOrderCount"].
Definition str_in (x : string) (l : list string) : bool := existsb (String.eqb x) l.
Definition lock_is_excl (k : lock_kind) : bool := match k with LExcl => true | _ => false end.
Definition lock_is_some (k : lock_kind) : bool := match k with LNone => false | _ => true end.
Definition lf_ok (f : lock_fact) : bool :=
  let clean := forallb (fun x => negb (str_in x inmem_shared)) (lf_pre f) in
  if str_in (lf_name f) inmem_mutators then lock_is_excl (lf_lock f) && lf_deferred f && clean
  else if str_in (lf_name f) inmem_readers then lock_is_some (lf_lock f) && lf_deferred f && clean
  else true.
Definition inmem_discipline_ok (fs : list lock_fact) : bool :=
  forallb lf_ok fs
  && forallb (fun n => existsb (fun f => String.eqb (lf_name f) n) fs) (inmem_mutators ++ inmem_readers)%list.
Definition inmem_violations (fs : list lock_fact) : list string :=
  (map lf_name (filter (fun f => negb (lf_ok f)) fs)
   ++ filter (fun n => negb (existsb (fun f => String.eqb (lf_name f) n) fs)) (inmem_mutators ++ inmem_readers))%list.

(* ---------- ent repository: one guarded UPDATE per transition ---------- *)
Inductive ent_event := EvGuard (st : string) | EvSet (st : string) | EvExec | EvRead
                     | EvClear (stamp : string) | EvStamp (stamp : string).   (* ClearXAt() / SetXAt(...) *)
Record ent_fact := mkEF { ef_name : string; ef_events : list ent_event }.   (* events in source order *)
Definition state_of_string (x : string) : state :=
  if String.eqb x "Scheduled" then Scheduled else if String.eqb x "Dispatched" then Dispatched
  else if String.eqb x "Cancelled" then Cancelled else if String.eqb x "Done" then Done
  else if String.eqb x "Err" then Err else SOther.
(* what the specification does for the operation behind each method: the guard of [Repo.guarded] and the states of
   the replacement task (Proofs/SrcProofs.v: spec_edge_is_the_model's) *)
Definition spec_edge (m : string) : option (state * list state) :=
  if String.eqb m "Cancel" then Some (Scheduled, [Cancelled])
  else if String.eqb m "MarkAsDispatched" then Some (Scheduled, [Dispatched])
  else if String.eqb m "MarkAsDone" then Some (Dispatched, [Done; Err])
  else None.
Definition guards_of (l : list ent_event) : list state :=
  flat_map (fun e => match e with EvGuard x => [state_of_string x] | _ => [] end) l.
Definition sets_of (l : list ent_event) : list state :=
  flat_map (fun e => match e with EvSet x => [state_of_string x] | _ => [] end) l.
Definition state_in (x : state) (l : list state) : bool := existsb (state_eqb x) l.
(* before the first Exec: no read of the row, the guard and the new state are in place *)
Fixpoint prefix_to_exec (l : list ent_event) : option (list ent_event) :=
  match l with
  | [] => None
  | EvExec :: _ => Some []
  | e :: r => match prefix_to_exec r with Some p => Some (e :: p) | None => None end
  end.
Definition ent_ok (f : ent_fact) : bool :=
  match spec_edge (ef_name f), prefix_to_exec (ef_events f) with
  | Some (g, ys), Some pre =>
    negb (existsb (fun e => match e with EvRead => true | _ => false end) pre)
    && match guards_of (ef_events f) with [g'] => state_eqb g g' | _ => false end
    && match guards_of pre with [_] => true | _ => false end
    && forallb (fun y => state_in y ys) (sets_of (ef_events f))
    && forallb (fun y => state_in y (sets_of pre)) ys
  | _, _ => false
  end.
Definition ent_methods : list string := ["Cancel"; "MarkAsDispatched"; "MarkAsDone"].
Definition ent_discipline_ok (fs : list ent_fact) : bool :=
  forallb ent_ok fs && forallb (fun n => existsb (fun f => String.eqb (ef_name f) n) fs) ent_methods.
Definition ent_violations (fs : list ent_fact) : list string :=
  (map ef_name (filter (fun f => negb (ent_ok f)) fs)
   ++ filter (fun n => negb (existsb (fun f => String.eqb (ef_name f) n) fs)) ent_methods)%list.

(* ---------- ent repository: the recovery operations (C13) ----------
   RevertDispatched / CancelDispatched are one UPDATE each over precisely the dispatched rows; the first also clears
   dispatched_at (F2), the second stamps cancelled_at. The table is the specification's: [undispatch] and
   [cancel_if_dispatched] (Repo.v) touch a task iff it is Dispatched (Props/C13.v: C13_revert_untouched,
   C13_revert_dispatched, C13_cancel_dispatched_untouched). *)
Definition rec_edge (m : string) : option (state * state * list ent_event) :=
  if String.eqb m "RevertDispatched" then Some (Dispatched, Scheduled, [EvClear "DispatchedAt"])
  else if String.eqb m "CancelDispatched" then Some (Dispatched, Cancelled, [EvStamp "CancelledAt"])
  else None.
Definition ev_eqb (a b : ent_event) : bool :=
  match a, b with
  | EvGuard x, EvGuard y | EvSet x, EvSet y | EvClear x, EvClear y | EvStamp x, EvStamp y => String.eqb x y
  | EvExec, EvExec | EvRead, EvRead => true
  | _, _ => false
  end.
Definition rec_ok (f : ent_fact) : bool :=
  match rec_edge (ef_name f), prefix_to_exec (ef_events f) with
  | Some (g, y, req), Some pre =>
    negb (existsb (fun e => match e with EvRead => true | _ => false end) (ef_events f))
    && match guards_of (ef_events f) with [g'] => state_eqb g g' | _ => false end
    && match guards_of pre with [_] => true | _ => false end
    && match sets_of (ef_events f) with [y'] => state_eqb y y' | _ => false end
    && match sets_of pre with [_] => true | _ => false end
    && forallb (fun r => existsb (ev_eqb r) pre) req
    && Nat.eqb (List.length (filter (fun e => match e with EvExec => true | _ => false end) (ef_events f))) 1
  | _, _ => false
  end.
Definition rec_methods : list string := ["RevertDispatched"; "CancelDispatched"].
Definition rec_discipline_ok (fs : list ent_fact) : bool :=
  forallb rec_ok fs && forallb (fun n => existsb (fun f => String.eqb (ef_name f) n) fs) rec_methods.
Definition rec_violations (fs : list ent_fact) : list string :=
  (map ef_name (filter (fun f => negb (rec_ok f)) fs)
   ++ filter (fun n => negb (existsb (fun f => String.eqb (ef_name f) n) fs)) rec_methods)%list.
