"""Level claims per property (texts for MANIFEST.json)."""
HOOK_COMMITS = ["47fa84a", "9b15058", "43e80e6", "8e885ae", "279a2fe", "026061f"]

_NOTE = ("Trusted: Coq 8.16.1 kernel + vm_compute; no axioms; the hand-written model (coq/*.v) and its tie to /repo, "
         "which is a differential check on generated histories (bounded, sampled); the Go harness and its Coq printer; "
         "the verif hooks. Assurance = min(theorem about the model, correspondence coverage).")

CLAIMS = {
    "C01": {"text": "Coq theorems over the sequential repository specification (Repo.step, all histories by induction): allowed transitions, success-iff, error-changes-nothing, error kind; both implementations are tied to that one specification by differential execution, and the property predicate p_C01 (the same boolean function the theorems are about) is evaluated on every observed step.",
            "design_ref": "DESIGN.md §5 C01", "note": _NOTE, "technique": "Coq proof (invariant by induction over operations) + model/implementation correspondence by vm_compute replay"},
    "C12": {"text": "Coq invariant wf_task for every task of every reachable state of the specification and every returned task; the predicate p_C12 is evaluated on everything both implementations return or store.",
            "design_ref": "DESIGN.md §5 C12", "note": _NOTE, "technique": "Coq proof (reachable-state invariant) + correspondence"},
}
_later = "model and correspondence harness not built yet in this session (in progress; see DESIGN.md §9 staging order)"
NOT_APPLICABLE = {("C%02d" % i): _later for i in range(1, 21)}
