"""Level claims per property (texts for MANIFEST.json)."""
HOOK_COMMITS = ["47fa84a", "9b15058", "43e80e6", "8e885ae", "279a2fe", "026061f"]

_NOTE = ("Trusted: Coq 8.16.1 kernel + vm_compute; no axioms; the hand-written model (coq/*.v) and its tie to /repo, "
         "which is a differential check on generated histories (bounded, sampled); the Go harness and its Coq printer; "
         "the verif hooks. Assurance = min(theorem about the model, correspondence coverage).")

CLAIMS = {
    "C01": {"text": "Coq theorems over the sequential repository specification (Repo.step, all histories by induction): allowed transitions, success-iff, error-changes-nothing, error kind; both implementations are tied to that one specification by differential execution, and the property predicate p_C01 (the same boolean function the theorems are about) is evaluated on every observed step.",
            "design_ref": "DESIGN.md §5 C01", "note": _NOTE, "technique": "Coq proof (invariant by induction over operations) + model/implementation correspondence by vm_compute replay"},
    "C12": {"text": "Coq invariant wf_task for every task of every reachable state of the specification and every returned task; the predicate p_C12 is evaluated on everything both implementations return or store.",
            "design_ref": "DESIGN.md §5 C12", "note": _NOTE, "technique": "Coq proof (reachable-state invariant) + correspondence"},
    "C02": {"text": "Coq theorems: GetNext of the specification returns a stored scheduled task that no scheduled task precedes in (time, priority desc, creation time), FIFO by first-minimum; exhausted iff nothing scheduled; for every state hence after every history. The in-memory heap and the SQL ORDER BY are tied to it by differential execution with tie-heavy generators, a GetNext probe after every operation and a final drain.",
            "design_ref": "DESIGN.md §5 C02", "note": _NOTE, "technique": "Coq proof (strict weak order, minimum by induction) + correspondence"},
    "C11": {"text": "Coq theorems: prefix/suffix/substring matchers meet their declarative rules, the offset/limit counter loop equals a contiguous window of the filtered list, sort by creation time is a sorted permutation and the identity under a monotone clock, both configurations agree under the documented rules; the faithful ent model (SQLite LIKE) is proved NOT to agree (C11_impls_agree_refuted, known finding F4).",
            "design_ref": "DESIGN.md §5 C11", "note": _NOTE, "technique": "Coq proof (algebraic laws, list induction, refutation witness) + correspondence on both repositories"},
    "C13": {"text": "Coq theorems on the sequential part: RevertDispatched/CancelDispatched change exactly the dispatched-unfinished tasks; dispatch followed by revert restores the repository exactly, so every continuation behaves identically. PARTIAL: crash durability is SQLite's and is only exercised (process kills), not proved.",
            "design_ref": "DESIGN.md §5 C13", "note": _NOTE + " Partial: SQLite durability/atomicity assumed.", "technique": "Coq proof (algebraic law + reuse of sequential theorems) + correspondence incl. recovery operations"},
    "C14": {"text": "Coq theorems at specification level (Load(Save s) = s, identical outputs for every continuation, invalid snapshot rejected without change) + lock-step differential run of the original and the restored repository (with and without JSON round trip), both against the model.",
            "design_ref": "DESIGN.md §5 C14", "note": _NOTE, "technique": "Coq proof (round-trip law) + lock-step correspondence"},
    "C19": {"text": "The model is a function of immutable values, so non-interference is by construction; the theorem shows the model never manufactures the scribble marker, which makes the detector sound; the correspondence is re-run while the harness overwrites every map reachable from every argument and result.",
            "design_ref": "DESIGN.md §5 C19", "note": _NOTE, "technique": "Coq proof (marker-freeness invariant) + correspondence under scribbling"},
    "C18": {"text": "Coq theorems: every draw of rand.Int's contract lands in the window (degenerate windows included), the normalized time stays within the normalized window (exactly base + in-window offset for whole-millisecond inputs), schedule-at-now yields the normalized clock reading, decode errors exactly for malformed durations, the mutating repository stores exactly the mutated parameters. The real decoder / mutators / ParamMutatingRepository are run under recover on generated metadata and compared with the model (standard-library parsers as oracles).",
            "design_ref": "DESIGN.md §5 C18", "note": _NOTE + " Oracles: time.ParseDuration, strconv.ParseInt, crypto/rand.Int (0 <= v < max).", "technique": "Coq proof (arithmetic lemmas by lia) + model/implementation correspondence on generated inputs"},
}
_later = "model and correspondence harness not built yet in this session (in progress; see DESIGN.md §9 staging order)"
NOT_APPLICABLE = {("C%02d" % i): _later for i in range(1, 21)}
