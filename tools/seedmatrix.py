#!/usr/bin/env python3
"""seedmatrix.py [-j K] [seed-id ...]

Development aid (not a registered check): runs the registered quick checks against every seeded change under
/verif/seeded/, each applied to a scratch worktree of /repo (never to /repo itself), and records which check reports
it in seeded/<id>/meta.json ("reported_by") and in seeded/README.md.

For a seed of property P the checks run are P's own plus those listed under "also_run" / already present in
"reported_by". Worktrees live under /tmp and are removed at the end.
"""
import sys, os, json, subprocess, re, concurrent.futures, time

ROOT = os.path.dirname(os.path.dirname(os.path.abspath(__file__)))
SEEDED = os.path.join(ROOT, "seeded")


def sh(cmd, **kw):
    p = subprocess.run(cmd, shell=True, stdout=subprocess.PIPE, stderr=subprocess.STDOUT, text=True, **kw)
    return p.returncode, p.stdout


def classify(out):
    vio = [l for l in out.splitlines() if l.startswith("VIOLATION")]
    det = [l for l in out.splitlines() if l.startswith("detail:")]
    if not vio:
        if re.search(r"^OK property", out, flags=re.M):
            return "MISSED"
        return "check did not complete: " + out[-200:].replace("\n", " ")
    kinds = set()
    for l in det:
        m = re.search(r"\((predicate|correspondence|[^)]*)\)\s*$", l)
        if m:
            kinds.add(m.group(1))
    nf = sum(1 for l in vio if l.rstrip().endswith("no-failing-input-found"))
    s = "+".join(sorted(kinds)) if kinds else "violation"
    if nf == len(vio):
        s += " (no-failing-input-found)"
    elif nf:
        s += " (some without failing input)"
    else:
        s += " (failing input in replay)"
    return s


def run_seed(args):
    sid, slot, jobs = args
    d = os.path.join(SEEDED, sid)
    meta = json.load(open(os.path.join(d, "meta.json")))
    wt = "/tmp/wtm_%d" % slot
    sh("git -C %s checkout -q . && git -C %s clean -fdq" % (wt, wt))
    rc, out = sh("git -C %s apply %s" % (wt, os.path.join(d, "patch.diff")))
    if rc != 0:
        return sid, {"_apply": "patch no longer applies to the current tree: " + out.strip()[:200]}
    props = [meta["breaks_property"]] + [p for p in meta.get("also_run", []) + list(meta.get("reported_by", {}).keys())
                                         if p != meta["breaks_property"]]
    seen, res = set(), {}
    for p in props:
        if p in seen or not re.match(r"^C\d\d$", p):
            continue
        seen.add(p)
        env = dict(os.environ, VERIF_ALT_REPO=wt, VERIF_JOBS=str(jobs))
        rc, out = sh("tools/check %s quick" % p, cwd=ROOT, env=env, timeout=3600)
        res[p] = classify(out)
    sh("git -C %s checkout -q . && git -C %s clean -fdq" % (wt, wt))
    return sid, res


def main():
    argv = sys.argv[1:]
    k = 3
    if argv and argv[0] == "-j":
        k = int(argv[1]); argv = argv[2:]
    seeds = argv or sorted(x for x in os.listdir(SEEDED) if os.path.isdir(os.path.join(SEEDED, x)))
    for i in range(k):
        sh("git -C /repo worktree remove --force /tmp/wtm_%d" % i)
        rc, out = sh("git -C /repo worktree add -q --detach /tmp/wtm_%d HEAD" % i)
        if rc != 0:
            print(out); sys.exit(2)
    head = sh("git -C /repo rev-parse --short HEAD")[1].strip()
    jobs = max(4, 16 // k)
    # each slot handles its seeds sequentially
    slots = [[] for _ in range(k)]
    for i, s in enumerate(seeds):
        slots[i % k].append(s)

    def run_slot(i):
        out = []
        for s in slots[i]:
            t0 = time.time()
            sid, res = run_seed((s, i, jobs))
            print("%s %s (%.0fs)" % (sid, json.dumps(res), time.time() - t0), flush=True)
            out.append((sid, res))
        return out
    results = {}
    with concurrent.futures.ThreadPoolExecutor(k) as ex:
        for lst in ex.map(run_slot, range(k)):
            for sid, res in lst:
                results[sid] = res
    for i in range(k):
        sh("git -C /repo worktree remove --force /tmp/wtm_%d" % i)
    sh("rm -rf %s" % os.path.join(ROOT, ".work-alt"))
    for sid, res in results.items():
        mp = os.path.join(SEEDED, sid, "meta.json")
        meta = json.load(open(mp))
        meta["reported_by"] = res
        meta["matrix_run"] = {"repo_head": head, "tier": "quick"}
        json.dump(meta, open(mp, "w"), indent=1)
    write_readme()


def write_readme():
    rows = []
    for sid in sorted(os.listdir(SEEDED)):
        mp = os.path.join(SEEDED, sid, "meta.json")
        if not os.path.exists(mp):
            continue
        m = json.load(open(mp))
        rep = "; ".join("%s: %s" % (p, v) for p, v in m.get("reported_by", {}).items())
        rows.append("| %s | %s | %s | %s | %s |" % (sid, m["breaks_property"], m["change"].replace("|", "/"),
                                                  m["needs_to_manifest"].replace("|", "/"), rep.replace("|", "/")))
    txt = ("# Seeded breaking changes\n\n"
           "Each directory holds one change to ngicks/gokugen written by an independent sub-agent that saw only property texts\n"
           "(rounds 1-4 and 7-9: the text of one property; rounds 5-6: the twenty texts and one source file to change) and a scratch\n"
           "worktree of /repo, never anything from /verif: `patch.diff`, the demonstration (`demo_test.go`, how to run it in\n"
           "`RUN.txt`), the author's `NOTES.md`, and `meta.json`. Every change compiles, passes the existing suite and was\n"
           "confirmed in a scratch worktree (demonstration passes without it and fails with it). None is ever committed to /repo.\n\n"
           "The last column is produced by `tools/seedmatrix.py` (quick tier of the registered checks, run against a scratch\n"
           "worktree carrying the change): *predicate* = the property's own boolean predicate failed on an observed history\n"
           "(failing input in the replay file); *correspondence* = model and implementation disagree on an observed history;\n"
           "*no-failing-input-found* = the tie broke (e.g. the harness could not complete) without a history on which the\n"
           "property itself fails; MISSED = the check passed (for a property other than the first one named this only means\n"
           "that the change does not break that other property in a way its check explores).\n\n"
           "| seed | property | change | needs | reported by |\n|---|---|---|---|---|\n" + "\n".join(rows) + "\n")
    open(os.path.join(SEEDED, "README.md"), "w").write(txt)


if __name__ == "__main__":
    if len(sys.argv) > 1 and sys.argv[1] == "--readme":
        write_readme()
    else:
        main()
