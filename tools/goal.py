#!/usr/bin/env python3
"""goal.py FILE LINE [extra tactic]: show the proof state after line LINE of a Coq file (dev helper)."""
import sys, subprocess, os, tempfile
f, n = sys.argv[1], int(sys.argv[2])
extra = sys.argv[3] if len(sys.argv) > 3 else ""
lines = open(f).read().split("\n")[:n]
d = os.path.dirname(os.path.abspath(f))
tmp = os.path.join("/tmp", "goal_%d.v" % os.getpid())
open(tmp, "w").write("\n".join(lines) + "\n" + extra + "\nShow.\n")
p = subprocess.run(["coqc", "-Q", "/verif/coq", "GK", tmp], stdout=subprocess.PIPE, stderr=subprocess.STDOUT, text=True)
out = p.stdout
print("\n".join(l for l in out.split("\n") if "conda" not in l)[-6000:])
for e in (".vo", ".glob", ".vok", ".vos"):
    try: os.remove(tmp[:-2] + e)
    except OSError: pass
os.remove(tmp)
