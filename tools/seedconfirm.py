#!/usr/bin/env python3
"""seedconfirm.py <seed-dir> <worktree>: confirm a seeded change in a scratch worktree:
   demo passes without the change, fails with it; build (also -tags verif) and the whole suite pass with it."""
import sys, re, os, subprocess, json, shutil
seed, wt = sys.argv[1], sys.argv[2]
env = dict(os.environ, GOFLAGS="-mod=mod", GOPROXY="off", GOSUMDB="off", GOTOOLCHAIN="local")
def sh(cmd, cwd=wt, timeout=1500):
    p = subprocess.run(cmd, cwd=cwd, env=env, shell=True, stdout=subprocess.PIPE, stderr=subprocess.STDOUT, text=True, timeout=timeout)
    return p.returncode, p.stdout
run = open(os.path.join(seed, "RUN.txt")).read()
m = re.search(r"([\w/]+_test\.go)(?=[ ,&]| in|$)", run.replace("demo_test.go", "", 1) if "demo_test.go" in run else run)
dests = [d for d in re.findall(r"((?:<[^>]*>/)?[\w/]+_test\.go)", run) if d != "demo_test.go" and not d.endswith("/demo_test.go")]
dest = re.sub(r"^<[^>]*>/", "", dests[0])
cmd = re.search(r"(go test .*)", run).group(1)
cmd = re.split(r"\s{2,}\(|\s+\(also", cmd)[0].strip()
sh("git checkout -q . && git clean -fdq")
shutil.copy(os.path.join(seed, "demo_test.go"), os.path.join(wt, dest))
res = {"dest": dest, "cmd": cmd}
rc, out = sh(cmd); res["demo_without"] = rc
rc2, out2 = sh("git apply %s" % os.path.join(seed, "patch.diff")); res["apply"] = rc2
rc, out = sh(cmd); res["demo_with"] = rc; res["demo_with_tail"] = out[-400:]
os.remove(os.path.join(wt, dest))
rc, out = sh("go build ./... && go build -tags verif ./... && go vet ./... 2>&1 | tail -3"); res["build"] = rc
rc, out = sh("go test -vet=off -count=1 ./... 2>&1 | grep -v 'no test files'"); res["suite"] = rc
if rc != 0:
    rc, out = sh("go test -vet=off -count=1 ./... 2>&1 | grep -v 'no test files'"); res["suite_second_try"] = rc
res["suite_tail"] = out[-300:]
sh("git checkout -q . && git clean -fdq")
res["confirmed"] = (res["demo_without"] == 0 and res["demo_with"] != 0 and res["build"] == 0 and (res["suite"] == 0 or res.get("suite_second_try") == 0))
print(json.dumps(res))
