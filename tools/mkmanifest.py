#!/usr/bin/env python3
"""Regenerates MANIFEST.json from tools/suites.py + tools/claims.py."""
import json, os, sys
ROOT = os.path.dirname(os.path.dirname(os.path.abspath(__file__)))
sys.path.insert(0, os.path.join(ROOT, "tools"))
from suites import SUITES
from claims import CLAIMS, NOT_APPLICABLE, HOOK_COMMITS

checks = []
for pid in sorted(SUITES):
    c = CLAIMS[pid]
    checks.append({
        "property_id": pid,
        "quick_cmd": "tools/check %s quick" % pid,
        "thorough_cmd": "tools/check %s thorough" % pid,
        "evidence_file": "/verif/evidence/%s.json" % pid,
        "replay_cmd_template": "tools/check %s quick --replay {path}" % pid,
        "engine": "coq+gkh",
        "level_claimed": {"category": "proof", "text": c["text"], "design_ref": c["design_ref"]},
        "level_note": c["note"],
        "technique": c["technique"],
    })
m = {
    "version": 1,
    "setup_cmd": "tools/setup",
    "hooks": {
        "guard": "verif",
        "enable": "go build -tags verif (harness module replaces github.com/ngicks/gokugen => /repo)",
        "baseline_off_cmd": "cd /repo && GOFLAGS=-mod=mod GOPROXY=off GOSUMDB=off go test -vet=off -count=1 -timeout 25m ./...",
        "source_commits": HOOK_COMMITS,
        "add_only": True,
    },
    "engines": [
        {"name": "coq+gkh", "path": "/verif/tools/check", "serves_properties": sorted(SUITES),
         "kind_free_text": "Coq 8.16.1 proofs over a hand-written executable model (coq/), tied to /repo on every run by a correspondence check: the Go harness (harness/, built against /repo with -tags verif) runs generated histories on the real code and coqc replays them through the model with vm_compute and evaluates the property predicates on what was observed"},
    ],
    "checks": checks,
    "not_applicable": [{"property_id": p, "reason": r} for p, r in sorted(NOT_APPLICABLE.items()) if p not in SUITES],
    "notes": "See DESIGN.md. known_findings.json lists genuine defects (fixed or recorded).",
}
json.dump(m, open(os.path.join(ROOT, "MANIFEST.json"), "w"), indent=1)
print("MANIFEST.json: %d checks, %d not_applicable" % (len(checks), len(m["not_applicable"])))
