#!/usr/bin/env python3
"""tools/go2coq/run.py — regenerate the source facts from the working tree of the repository under check and re-check
their obligations with coqc. Prints one JSON line: [[name, ok, message], ...]."""
import os, sys, json, subprocess, hashlib

ROOT = os.path.dirname(os.path.dirname(os.path.dirname(os.path.abspath(__file__))))
REPO = os.environ.get("VERIF_ALT_REPO") or "/repo"
WORK = os.path.join(ROOT, ".work")
if os.environ.get("VERIF_ALT_REPO"):
    WORK = os.path.join(ROOT, ".work-alt", hashlib.sha1(REPO.encode()).hexdigest()[:10])
GEN = os.path.join(WORK, "gen-%d" % os.getpid())
ENV = dict(os.environ, GOFLAGS="-mod=mod", GOPROXY="off", GOSUMDB="off", GOTOOLCHAIN="local")


def sh(cmd, cwd=None, timeout=600):
    p = subprocess.run(cmd, cwd=cwd, env=ENV, shell=True, stdout=subprocess.PIPE, stderr=subprocess.STDOUT, text=True, timeout=timeout)
    return p.returncode, p.stdout


def main():
    os.makedirs(GEN, exist_ok=True)
    names = ["src:inmem-lock-discipline", "src:ent-guarded-update", "src:ent-recovery-update"]
    tool = os.path.join(GEN, "go2coq")
    rc, out = sh("go build -o %s ." % tool, cwd=os.path.join(ROOT, "tools", "go2coq"))
    if rc != 0:
        print(json.dumps([[n, False, "translator does not build: " + out[-500:]] for n in names])); return
    rc, out = sh("%s %s" % (tool, REPO))
    if rc != 0:
        print(json.dumps([[n, False, "translator failed on the source: " + out[-500:]] for n in names])); return
    facts = out
    res = []
    for name, ok_fn, vio_fn, arg in [(names[0], "inmem_discipline_ok", "inmem_violations", "inmem_lock_facts"),
                                     (names[1], "ent_discipline_ok", "ent_violations", "ent_update_facts"),
                                     (names[2], "rec_discipline_ok", "rec_violations", "ent_recovery_facts")]:
        f = os.path.join(GEN, "SrcGen.v")
        open(f, "w").write(facts + "\nEval vm_compute in %s %s.\n" % (vio_fn, arg)
                           + "Theorem obligation : %s %s = true.\nProof. vm_compute. reflexivity. Qed.\nPrint Assumptions obligation.\n" % (ok_fn, arg))
        rc, out = sh("timeout 300 coqc -Q %s GK SrcGen.v" % os.path.join(ROOT, "coq"), cwd=GEN)
        ok = rc == 0 and "Closed under the global context" in out
        msg = "facts extracted from %s:\n%s\ncoqc:\n%s" % (REPO, facts[-1500:], out[-800:]) if not ok else ""
        res.append([name, ok, msg])
    sh("rm -rf %s" % GEN)
    print(json.dumps(res))


if __name__ == "__main__":
    main()
