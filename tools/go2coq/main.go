// go2coq: a small translator from ngicks/gokugen's Go source to Coq facts (see DESIGN.md §4a).
//
// It does not translate code into a model; it extracts, from the abstract syntax of the current working tree, the
// two mechanisms property C10 is anchored in, as data the Coq development re-checks on every run:
//   - for every method of *InMemoryRepository: which lock it takes first (none / exclusive / read), whether the
//     matching unlock is deferred by the very next statement, and which receiver fields it touches before that;
//   - for the transition methods of *EntRepository: the source-order sequence of guarded-UPDATE events
//     (Where(task.StateEQ(X)), SetState(Y), Exec/Save) and reads (GetById).
//
// usage: go2coq <repo root>   (Coq text on stdout)
package main

import (
	"fmt"
	"go/ast"
	"go/parser"
	"go/token"
	"os"
	"path/filepath"
	"sort"
	"strings"
)

func must(err error) {
	if err != nil {
		fmt.Fprintln(os.Stderr, "go2coq:", err)
		os.Exit(2)
	}
}

func recvName(fd *ast.FuncDecl) (typ, name string) {
	if fd.Recv == nil || len(fd.Recv.List) != 1 {
		return "", ""
	}
	f := fd.Recv.List[0]
	t := f.Type
	if s, ok := t.(*ast.StarExpr); ok {
		t = s.X
	}
	id, ok := t.(*ast.Ident)
	if !ok {
		return "", ""
	}
	if len(f.Names) == 1 {
		name = f.Names[0].Name
	}
	return id.Name, name
}

// isMuCall: stmt-level call <recv>.mu.<method>()
func muCall(e ast.Expr, recv string) string {
	c, ok := e.(*ast.CallExpr)
	if !ok || len(c.Args) != 0 {
		return ""
	}
	s, ok := c.Fun.(*ast.SelectorExpr)
	if !ok {
		return ""
	}
	in, ok := s.X.(*ast.SelectorExpr)
	if !ok || in.Sel.Name != "mu" {
		return ""
	}
	if id, ok := in.X.(*ast.Ident); !ok || id.Name != recv {
		return ""
	}
	return s.Sel.Name
}

func fieldsOf(n ast.Node, recv string, into map[string]bool) {
	ast.Inspect(n, func(x ast.Node) bool {
		if s, ok := x.(*ast.SelectorExpr); ok {
			if id, ok := s.X.(*ast.Ident); ok && id.Name == recv && s.Sel.Name != "mu" {
				into[s.Sel.Name] = true
			}
		}
		return true
	})
}

func coqList(xs []string) string {
	q := make([]string, len(xs))
	for i, x := range xs {
		q[i] = "\"" + x + "\""
	}
	return "[" + strings.Join(q, "; ") + "]"
}

func lockFacts(fset *token.FileSet, files []*ast.File, typ string) []string {
	var out []string
	for _, f := range files {
		for _, d := range f.Decls {
			fd, ok := d.(*ast.FuncDecl)
			if !ok || fd.Body == nil {
				continue
			}
			t, recv := recvName(fd)
			if t != typ {
				continue
			}
			kind, deferred := "LNone", false
			pre := map[string]bool{}
			found := false
			for i, st := range fd.Body.List {
				if es, ok := st.(*ast.ExprStmt); ok {
					switch muCall(es.X, recv) {
					case "Lock":
						kind, found = "LExcl", true
					case "RLock":
						kind, found = "LRead", true
					}
					if found {
						if i+1 < len(fd.Body.List) {
							if ds, ok := fd.Body.List[i+1].(*ast.DeferStmt); ok {
								m := muCall(ds.Call, recv)
								deferred = (kind == "LExcl" && m == "Unlock") || (kind == "LRead" && m == "RUnlock")
							}
						}
						break
					}
				}
				fieldsOf(st, recv, pre)
			}
			var pf []string
			for k := range pre {
				pf = append(pf, k)
			}
			sort.Strings(pf)
			d := "false"
			if deferred {
				d = "true"
			}
			out = append(out, fmt.Sprintf("  mkLF \"%s\" %s %s %s", fd.Name.Name, kind, d, coqList(pf)))
		}
	}
	sort.Strings(out)
	return out
}

// entFacts: source-order events of the transition methods
func entFacts(files []*ast.File, typ string, methods map[string]bool) []string {
	var out []string
	for _, f := range files {
		for _, d := range f.Decls {
			fd, ok := d.(*ast.FuncDecl)
			if !ok || fd.Body == nil {
				continue
			}
			t, recv := recvName(fd)
			if t != typ || !methods[fd.Name.Name] {
				continue
			}
			type ev struct {
				pos token.Pos
				s   string
			}
			var evs []ev
			stateArg := func(c *ast.CallExpr) string {
				if len(c.Args) != 1 {
					return "?"
				}
				if s, ok := c.Args[0].(*ast.SelectorExpr); ok {
					return strings.TrimPrefix(s.Sel.Name, "State")
				}
				return "?"
			}
			ast.Inspect(fd.Body, func(x ast.Node) bool {
				c, ok := x.(*ast.CallExpr)
				if !ok {
					return true
				}
				s, ok := c.Fun.(*ast.SelectorExpr)
				if !ok {
					return true
				}
				switch s.Sel.Name {
				case "StateEQ":
					evs = append(evs, ev{s.Sel.Pos(), "EvGuard \"" + stateArg(c) + "\""})
				case "SetState":
					evs = append(evs, ev{s.Sel.Pos(), "EvSet \"" + stateArg(c) + "\""})
				case "ClearDispatchedAt", "ClearCancelledAt", "ClearDoneAt":
					evs = append(evs, ev{s.Sel.Pos(), "EvClear \"" + strings.TrimPrefix(s.Sel.Name, "Clear") + "\""})
				case "SetDispatchedAt", "SetCancelledAt", "SetDoneAt":
					evs = append(evs, ev{s.Sel.Pos(), "EvStamp \"" + strings.TrimPrefix(s.Sel.Name, "Set") + "\""})
				case "Exec", "Save":
					evs = append(evs, ev{s.Sel.Pos(), "EvExec"})
				case "GetById", "Get", "Only", "First", "All", "Query":
					if id, ok := s.X.(*ast.Ident); (ok && id.Name == recv) || s.Sel.Name != "GetById" {
						evs = append(evs, ev{s.Sel.Pos(), "EvRead"})
					}
				}
				return true
			})
			sort.Slice(evs, func(i, j int) bool { return evs[i].pos < evs[j].pos })
			ss := make([]string, len(evs))
			for i, e := range evs {
				ss[i] = e.s
			}
			out = append(out, fmt.Sprintf("  mkEF \"%s\" [%s]", fd.Name.Name, strings.Join(ss, "; ")))
		}
	}
	sort.Strings(out)
	return out
}

func parseDir(fset *token.FileSet, dir string) []*ast.File {
	ents, err := os.ReadDir(dir)
	must(err)
	var fs []*ast.File
	for _, e := range ents {
		n := e.Name()
		if e.IsDir() || !strings.HasSuffix(n, ".go") || strings.HasSuffix(n, "_test.go") || n == "verif_hooks.go" {
			continue
		}
		f, err := parser.ParseFile(fset, filepath.Join(dir, n), nil, 0)
		must(err)
		fs = append(fs, f)
	}
	return fs
}

func main() {
	if len(os.Args) != 2 {
		fmt.Fprintln(os.Stderr, "usage: go2coq <repo root>")
		os.Exit(2)
	}
	root := os.Args[1]
	fset := token.NewFileSet()
	inmem := parseDir(fset, filepath.Join(root, "repository", "inmemory"))
	ent := parseDir(fset, filepath.Join(root, "repository", "ent"))
	fmt.Println("(* generated by tools/go2coq from the Go source of the working tree: do not edit *)")
	fmt.Println("From GK Require Import SrcFacts.")
	fmt.Println("Open Scope string_scope.\nOpen Scope list_scope.")
	fmt.Println("Definition inmem_lock_facts : list lock_fact := [")
	fmt.Println(strings.Join(lockFacts(fset, inmem, "InMemoryRepository"), ";\n"))
	fmt.Println("].")
	fmt.Println("Definition ent_update_facts : list ent_fact := [")
	fmt.Println(strings.Join(entFacts(ent, "EntRepository", map[string]bool{"Cancel": true, "MarkAsDispatched": true, "MarkAsDone": true}), ";\n"))
	fmt.Println("].")
	fmt.Println("Definition ent_recovery_facts : list ent_fact := [")
	fmt.Println(strings.Join(entFacts(ent, "EntRepository", map[string]bool{"RevertDispatched": true, "CancelDispatched": true}), ";\n"))
	fmt.Println("].")
}
