"""Per-property suites of the correspondence check (which harness runs, which Coq predicate)."""

REPO_HEADER = "From GK Require Import PropCheck.\nOpen Scope string_scope.\nOpen Scope Z_scope."


def repo_suite(name, impl, mode, pred, quick, thorough, length=40, extra=None, cfg=None):
    cfg = cfg or ("cfg_inmem" if impl == "inmem" else "cfg_ent")
    return {
        "name": name, "cmd": ["repo", "--impl", impl, "--mode", mode, "--len", str(length)] + (extra or []),
        "cfg": cfg, "header": REPO_HEADER, "hist_type": "hist",
        "eval": "Definition M := Eval vm_compute in mismatches %s cases.\nPrint M.\n"
                "Definition V := Eval vm_compute in violations %s %s cases.\nPrint V." % (cfg, pred, cfg),
        "diag": "Eval vm_compute in expect_at %s h {i}." % cfg,
        "quick": quick, "thorough": thorough,
    }


SUITES = {
    "C01": {"suites": [
        repo_suite("c01-inmem", "inmem", "c01", "p_C01", {"n": 25, "shards": 8}, {"n": 200, "shards": 16, }),
        repo_suite("c01-ent", "ent", "c01", "p_C01", {"n": 20, "shards": 6}, {"n": 150, "shards": 16}),
    ]},
    "C12": {"suites": [
        repo_suite("c12-inmem", "inmem", "c01", "p_C12", {"n": 25, "shards": 7}, {"n": 200, "shards": 16}),
        repo_suite("c12-ent", "ent", "c13", "p_C12", {"n": 20, "shards": 7}, {"n": 150, "shards": 16}),
    ]},
}

PROP_FILES = {
    "C01": ["Props/C01.v"],
    "C12": ["Props/C12.v"],
}

TRUSTED_BASE = [
    "Coq 8.16.1 kernel (coqc) incl. its VM (vm_compute) used to evaluate the model on observed histories; no native_compute",
    "axioms: none (every property theorem must print 'Closed under the global context')",
    "hand-written Coq model of /repo's code (coq/*.v); tied to the code by differential execution of generated histories (tools/check, harness/), bounded and sampled",
    "Go harness: generators, virtual clock, projection of errors (library's own classifiers) and times, Coq term printer (harness/internal/cq)",
    "verif-tagged add-only hooks in /repo (clock / id generator injection, probes)",
]

ASSUMPTIONS = [
    "fresh_ids: the id generator never returns the same id twice (uuid in production; injected counter in the harness)",
    "instants are >= Go zero time; Go's Truncate = floor on the absolute instant",
]

PARTIAL = {}
