"""Per-property suites of the correspondence check (which harness runs, which Coq predicate)."""

REPO_HEADER = "From GK Require Import PropCheck.\nOpen Scope string_scope.\nOpen Scope list_scope.\nOpen Scope Z_scope."


def repo_suite(name, impl, mode, pred, quick, thorough, length=40, extra=None, cfg=None):
    cfg = cfg or ("cfg_inmem" if impl == "inmem" else "cfg_ent")
    return {
        "name": name, "cmd": ["repo", "--impl", impl, "--mode", mode, "--len", str(length)] + (extra or []),
        "cfg": cfg, "header": REPO_HEADER.replace("PropCheck", "Findings"), "hist_type": "hist",
        "eval": "Definition M := Eval vm_compute in mismatches %s cases.\nPrint M.\n"
                "Definition V := Eval vm_compute in violations %s %s cases.\nPrint V." % (cfg, pred, cfg),
        "diag": "Eval vm_compute in expect_at %s (nth {k} cases []) {i}." % cfg,
        "sig": "{sig} %s (nth {k} cases []) {i}" % cfg,
        "quick": quick, "thorough": thorough,
    }


def snap_suite(name, quick, thorough, length=50):
    return {
        "name": name, "cmd": ["repo", "--impl", "inmem", "--mode", "c14", "--len", str(length)],
        "cfg": "cfg_inmem", "header": REPO_HEADER, "hist_type": "snapcase",
        "eval": "Definition M := Eval vm_compute in snap_mismatches_from cfg_inmem cases 0.\nPrint M.\n"
                "Definition V := Eval vm_compute in snap_violations_from cases 0.\nPrint V.",
        "diag": "Definition h := nth {k} cases (mkSnap [] [] []).\n"
                "Eval vm_compute in (snap_mismatch cfg_inmem h, lockstep (sn_a h) (sn_b h) 0, "
                "expect_at cfg_inmem (sn_pre h ++ sn_a h) ({i} mod 1000), "
                "nth_error (sn_b h) ({i} mod 1000 - List.length (sn_pre h))).",
        "sig": "false",
        "quick": quick, "thorough": thorough,
    }


MUT_HEADER = "From GK Require Import Mutator.\nOpen Scope string_scope.\nOpen Scope list_scope.\nOpen Scope Z_scope."


def mut_suite(name, quick, thorough):
    return {
        "name": name, "cmd": ["mut"], "header": MUT_HEADER, "hist_type": "mcase",
        "eval": "Definition M := Eval vm_compute in (mut_mismatches cases 0 ++ add_mismatches acases 0).\nPrint M.\n"
                "Definition V := Eval vm_compute in mut_violations cases 0.\nPrint V.",
        "diag": "Eval vm_compute in (if Nat.eqb {i} 1 then None else nth_error cases {k}, if Nat.eqb {i} 1 then nth_error acases {k} else None).",
        "show": "Eval vm_compute in (load_mutators (mc_meta (nth {k} cases (mkMC [] (mkPO None None) (mkPO None None) tzero u_empty MPanic))) "
                "(mc_omax (nth {k} cases (mkMC [] (mkPO None None) (mkPO None None) tzero u_empty MPanic))) "
                "(mc_omin (nth {k} cases (mkMC [] (mkPO None None) (mkPO None None) tzero u_empty MPanic)))).",
        "sig": "false",
        "quick": quick, "thorough": thorough,
    }


CRON_HEADER = "From GK Require Import Cron.\nOpen Scope string_scope.\nOpen Scope list_scope.\nOpen Scope Z_scope."


def cron_suite(name, mode, m_proj, v_proj, quick, thorough, length=40, extra=None):
    return {
        "name": name, "cmd": ["cron", "--mode", mode, "--len", str(length)] + (extra or []), "header": CRON_HEADER, "hist_type": "ccase",
        "eval": "Definition M := Eval vm_compute in cron_mismatches %s cases 0.\nPrint M.\n"
                "Definition V := Eval vm_compute in cron_mismatches %s cases 0.\nPrint V." % (m_proj, v_proj),
        "diag": "Eval vm_compute in cron_expect (nth {k} cases (mkCC [] [])) {i}.",
        "show": "Eval vm_compute in map fst (cc_hist (nth {k} cases (mkCC [] []))).",
        "sig": "false",
        "quick": quick, "thorough": thorough,
    }


DISP_HEADER = "From GK Require Import Disp.\nOpen Scope string_scope.\nOpen Scope list_scope.\nOpen Scope Z_scope."


def proto_suite(name, quick, thorough):
    return {
        "name": name, "cmd": ["disp", "--proto"], "header": DISP_HEADER, "hist_type": "dcase",
        "eval": "Definition M := Eval vm_compute in disp_mismatches true cases 0.\nPrint M.\n"
                "Definition V := Eval vm_compute in disp_violations cases 0.\nPrint V.",
        "diag": "Eval vm_compute in (nth_error cases {k}, omap (fun x => exec true (dc_in x)) (nth_error cases {k})).",
        "sig": "false",
        "quick": quick, "thorough": thorough,
    }


def pool_suite(name, quick, thorough):
    return {
        "name": name, "cmd": ["disp"], "header": DISP_HEADER, "hist_type": "list pev",
        "eval": "Definition M := Eval vm_compute in pool_violations cases 0.\nPrint M.\n"
                "Definition V := Eval vm_compute in pool_violations cases 0.\nPrint V.",
        "diag": "Eval vm_compute in (nth_error cases {k}).",
        "sig": "false", "timeout": 900,
        "quick": quick, "thorough": thorough,
    }


SYS_HEADER = "From GK Require Import SysCheck.\nOpen Scope string_scope.\nOpen Scope list_scope.\nOpen Scope Z_scope."


# how many of the observed traces meet the hypotheses of the rest-state theorems (Props/C05.v, Props/C06.v): evidence
# that those theorems speak about the traces the check sees
REST_COUNTERS = ("From GK.Proofs Require RestProofs.\n"
                 "Definition traces_meeting_C05_rest_hypotheses := Eval vm_compute in List.length (filter (fun tr => RestProofs.timer_started_first tr && RestProofs.no_user_hook_fault tr && RestProofs.trace_disciplined tr) cases).\n"
                 "Print traces_meeting_C05_rest_hypotheses.\n"
                 "Definition traces_meeting_C06_rest_hypotheses := Eval vm_compute in List.length (filter RestProofs.no_markdone_fault cases).\n"
                 "Print traces_meeting_C06_rest_hypotheses.\n")


def sys_suite(name, pred, quick, thorough, length=60, extra=None):
    su = _sys_suite(name, pred, quick, thorough, length, extra)
    if pred in ("c05_ok", "c06_ok", "c20_ok"):
        su["eval"] += "\n" + REST_COUNTERS
        su["counters"] = ["traces_meeting_C05_rest_hypotheses", "traces_meeting_C06_rest_hypotheses"]
    return su


def _sys_suite(name, pred, quick, thorough, length=60, extra=None):
    return {
        "name": name, "cmd": ["sys", "--len", str(length)] + (extra or []), "header": SYS_HEADER, "hist_type": "list slabel",
        "eval": "Definition M := Eval vm_compute in sys_mismatches scfg_current hcfg_current cases 0.\nPrint M.\n"
                "Definition V := Eval vm_compute in trace_violations %s cases 0.\nPrint V." % pred,
        "diag": "Eval vm_compute in sys_expect scfg_current hcfg_current (nth {k} cases []) {i}.",
        "show": "Eval vm_compute in (nth {k} cases []).",
        "sig": "{sig} (nth {k} cases [])", "timeout": 1200,
        "quick": quick, "thorough": thorough,
    }


VSYS_HEADER = "From GK Require Import VSys SysCheck.\nOpen Scope string_scope.\nOpen Scope list_scope.\nOpen Scope Z_scope."


def vsys_suite(name, pred, quick, thorough, length=50, extra=None):
    """the pipeline in its second configuration: Scheduler over NewVolatileTaskRepo(CronStore) (model VSys.v)"""
    return {
        "name": name, "cmd": ["sys", "--volatile", "--len", str(length)] + (extra or []), "header": VSYS_HEADER,
        "hist_type": "vcase",
        "eval": "Definition M := Eval vm_compute in vsys_mismatches scfg_current cases 0.\nPrint M.\n"
                "Definition V := Eval vm_compute in vtrace_violations %s cases 0.\nPrint V." % pred,
        "diag": "Eval vm_compute in match nth_error cases {k} with Some x => Some (vsys_expect scfg_current x {i}) | None => None end.",
        "show": "Eval vm_compute in match nth_error cases {k} with Some x => vc_trace x | None => [] end.",
        "sig": "false", "timeout": 1200,
        "quick": quick, "thorough": thorough,
    }


def vsplit_suite(name, pred, quick, thorough, length=50):
    """cron / volatile pipeline at sub-call granularity: cron edits land between the Peek and the Pop that one
    volatileTaskRepo.MarkAsDispatched issues (model VSplit.v = VSys.v + label XSplitMark)"""
    su = vsys_suite(name, pred, quick, thorough, length, ["--split-edit"])
    su["header"] = "From GK Require Import VSplit SysCheck.\nOpen Scope string_scope.\nOpen Scope list_scope.\nOpen Scope Z_scope."
    su["hist_type"] = "xcase"
    su["eval"] = ("Definition M := Eval vm_compute in xsys_mismatches scfg_current cases 0.\nPrint M.\n"
                  "Definition V := Eval vm_compute in xtrace_violations %s cases 0.\nPrint V." % pred)
    su["diag"] = "Eval vm_compute in match nth_error cases {k} with Some x => Some (xsys_expect scfg_current x {i}) | None => None end."
    su["show"] = "Eval vm_compute in match nth_error cases {k} with Some x => xc_trace x | None => [] end."
    su["sig"] = "{sig} scfg_current (match nth_error cases {k} with Some x => x | None => mkXC [] [] end)"
    return su


def sys_pred_suite(name, pred, quick, thorough, length=60, extra=None):
    """pipeline runs for which there is no model (fault placement below the observable wrapper): only the trace
    predicate - which is model-independent - is evaluated; M is empty by construction"""
    su = _sys_suite(name, pred, quick, thorough, length, extra)
    su["pred_only"] = True
    su["eval"] = ("Definition M : list (nat * nat) := [].\nPrint M.\n"
                  "Definition V := Eval vm_compute in trace_violations %s cases 0.\nPrint V." % pred)
    return su


def vsys_pred_suite(name, pred, quick, thorough, length=50, extra=None):
    """cron / volatile pipeline runs with transient faults of the store's Pop: no model follows faults in that configuration;
    the trace predicates (model-independent) are evaluated, M is empty by construction"""
    su = vsys_suite(name, pred, quick, thorough, length, extra)
    su["pred_only"] = True
    su["eval"] = ("Definition M : list (nat * nat) := [].\nPrint M.\n"
                  "Definition V := Eval vm_compute in vtrace_violations %s cases 0.\nPrint V." % pred)
    return su


def hook_suite(name, quick, thorough, length=40, extra=None):
    return {
        "name": name, "cmd": ["hook", "--len", str(length)] + (extra or []),
        "header": "From GK Require Import SysCheck.\nOpen Scope string_scope.\nOpen Scope list_scope.\nOpen Scope Z_scope.",
        "hist_type": "hhist",
        "eval": "Definition M := Eval vm_compute in hook_mismatches hcfg_current cases 0.\nPrint M.\n"
                "Definition V := Eval vm_compute in hook_violations cases 0.\nPrint V.",
        "diag": "Eval vm_compute in hook_expect hcfg_current (nth {k} cases []) {i}.",
        "show": "Eval vm_compute in map (fun x => fst (fst x)) (nth {k} cases []).",
        "sig": "false",
        "quick": quick, "thorough": thorough,
    }


def hook_conc_suite(name, quick, thorough, length=12):
    """C07 'for concurrent mutators checked at quiescence': a sequential prefix, then 2-3 goroutines mutate shared tasks
    through the observable wrapper at once (race-detector build); the predicate is evaluated on the final observation"""
    return {
        "name": name, "cmd": ["hook", "--concurrent", "--len", str(length)], "race": True, "pred_only": True,
        "header": "From GK Require Import SysCheck.\nOpen Scope string_scope.\nOpen Scope list_scope.\nOpen Scope Z_scope.",
        "hist_type": "bool * hobs",
        "eval": "Definition M : list (nat * nat) := [].\nPrint M.\n"
                "Definition V := Eval vm_compute in map (fun k => (k, 0%nat)) (filter (fun k => match nth_error cases k with Some (st, ob) => negb (c07_ok st ob) | None => false end) (seq 0 (List.length cases))).\nPrint V.",
        "diag": "Eval vm_compute in nth_error cases {k}.",
        "show": "Eval vm_compute in nth_error cases {k}.",
        "sig": "false",
        "quick": quick, "thorough": thorough,
    }


def lin_suite(name, impl, quick, thorough, extra=None):
    return {
        "name": name, "cmd": ["lin", "--impl", impl] + (extra or []),
        "header": "From GK Require Import Lin.\nOpen Scope string_scope.\nOpen Scope list_scope.\nOpen Scope Z_scope.",
        "hist_type": "lcase",
        "eval": "Definition M := Eval vm_compute in lin_violations cfg_%s cases 0.\nPrint M.\n"
                "Definition V := Eval vm_compute in M.\nPrint V." % impl,
        "diag": "Eval vm_compute in (nth_error cases {k}).",
        "sig": "false", "timeout": 1500, "race": True,
        "quick": quick, "thorough": thorough,
    }


def crash_suite(name, quick, thorough):
    return {
        "name": name, "cmd": ["crash", "--len", "30"], "uses_dir": True,
        "header": REPO_HEADER.replace("PropCheck", "Findings"), "hist_type": "crashcase",
        "eval": "Definition M := Eval vm_compute in crash_violations cfg_ent cases 0.\nPrint M.\n"
                "Definition V := Eval vm_compute in M.\nPrint V.",
        "diag": "Eval vm_compute in (omap (fun x => (crash_check cfg_ent x, cr_inflight x, map (fun t => (t_id t, t_state t)) (cr_dump x), "
                "omap (map (fun t => (t_id t, t_state t))) (hist_state cfg_ent [] (cr_acked x)))) (nth_error cases {k})).",
        "show": "Eval vm_compute in (omap (fun x => (map fst (cr_acked x), cr_inflight x, map fst (cr_post x))) (nth_error cases {k})).",
        "sig": "false", "timeout": 900,
        "quick": quick, "thorough": thorough,
    }


def probe_suite(name, quick, thorough, length=40):
    return {
        "name": name, "cmd": ["repo", "--impl", "inmem", "--mode", "c02", "--probe", "--len", str(length)],
        "header": "From GK Require Import HeapCheck.\nOpen Scope string_scope.\nOpen Scope list_scope.\nOpen Scope Z_scope.",
        "hist_type": "phist",
        "eval": "Definition M := Eval vm_compute in probe_mismatches cases 0.\nPrint M.\n"
                "Definition V : list (nat * nat) := [].\nPrint V.",
        "diag": "Eval vm_compute in probe_expect (nth {k} cases []) {i}.",
        "show": "Eval vm_compute in map (fun x => fst (fst x)) (nth {k} cases []).",
        "sig": "false",
        "quick": quick, "thorough": thorough,
    }


SUITES = {
    "C01": {"suites": [
        repo_suite("c01-inmem", "inmem", "c01", "p_C01", {"n": 25, "shards": 8}, {"n": 200, "shards": 16, }),
        repo_suite("c01-ent", "ent", "c01", "p_C01", {"n": 20, "shards": 6}, {"n": 150, "shards": 16}),
    ]},
    "C02": {"suites": [
        repo_suite("c02-inmem", "inmem", "c02", "p_C02", {"n": 25, "shards": 8}, {"n": 200, "shards": 16}),
        repo_suite("c02-ent", "ent", "c02", "p_C02", {"n": 15, "shards": 6}, {"n": 120, "shards": 16}),
        probe_suite("c02-heap-probe", {"n": 12, "shards": 8}, {"n": 100, "shards": 16}),
    ]},
    "C10": {"gen_obligations": ["src:inmem-lock-discipline", "src:ent-guarded-update"], "suites": [
        lin_suite("c10-inmem", "inmem", {"n": 60, "shards": 8}, {"n": 600, "shards": 16}),
        lin_suite("c10-ent", "ent", {"n": 40, "shards": 6}, {"n": 400, "shards": 16}),
    ], "rule": "2..4 goroutines x 2..4 operations (cancel / dispatch / update / mark-as-done / get / next / find / add) mostly on one shared task with tying keys, after a sequential setup and followed by a sequential read-back (Find(all), GetNext/Cancel drain); call and return are stamped with one atomic counter; the Coq checker searches a linearization under Repo.step; distinct = distinct recorded history"},
    "C11": {"suites": [
        repo_suite("c11-inmem", "inmem", "c11", "p_C11", {"n": 20, "shards": 8}, {"n": 150, "shards": 16}),
        repo_suite("c11-ent", "ent", "c11", "p_C11", {"n": 12, "shards": 5}, {"n": 100, "shards": 16}),
        repo_suite("c11-inmem-keys", "inmem", "c11", "p_C11", {"n": 10, "shards": 1}, {"n": 100, "shards": 4}, extra=["--quotekeys"]),
        repo_suite("c11-ent-keys", "ent", "c11", "p_C11", {"n": 10, "shards": 2}, {"n": 100, "shards": 8}, extra=["--quotekeys"]),
    ]},
    "C13": {"gen_obligations": ["src:ent-recovery-update"], "suites": [
        repo_suite("c13-ent", "ent", "c13", "(p_and p_C13 (p_and p_C01 (p_and p_C02 p_C12)))", {"n": 15, "shards": 8}, {"n": 120, "shards": 16}),
        crash_suite("c13-crash", {"n": 10, "shards": 6}, {"n": 70, "shards": 16}),
    ]},
    "C14": {"suites": [
        snap_suite("c14-snap", {"n": 20, "shards": 12}, {"n": 150, "shards": 16}),
    ]},
    "C19": {"suites": [
        repo_suite("c19-inmem", "inmem", "c01", "p_C19", {"n": 20, "shards": 6}, {"n": 150, "shards": 16}, extra=["--scribble"]),
        repo_suite("c19-ent", "ent", "c13", "p_C19", {"n": 15, "shards": 6}, {"n": 100, "shards": 16}, extra=["--scribble"]),
        cron_suite("c19-cron", "c15", "false true", "false true", {"n": 10, "shards": 4}, {"n": 60, "shards": 16}, extra=["--scribble"]),
        vsys_suite("c19-vsys", "vall_ok", {"n": 25, "shards": 3}, {"n": 60, "shards": 16}, extra=["--scribble"]),
    ]},
    "C03": {"suites": [sys_suite("c03-sys", "c03_ok", {"n": 25, "shards": 10}, {"n": 200, "shards": 16}),
                       sys_suite("c03-sys-faults", "c03_ok", {"n": 25, "shards": 4}, {"n": 150, "shards": 16}, extra=["--faults"]),
                       # the same pipeline over the ent/SQLite repository (it follows the same monitor: the pipeline only uses
                       # what both repositories agree on)
                       sys_suite("c03-sys-ent", "c03_ok", {"n": 25, "shards": 3}, {"n": 100, "shards": 16}, extra=["--impl", "ent", "--faults"]),
                       vsys_suite("c03-vsys", "vc03_ok", {"n": 25, "shards": 4}, {"n": 60, "shards": 16}),
                       # finer than the call boundaries of scheduler.Repository: a cron edit (removing a random entry, often
                       # the head's) lands between the Peek and the Pop that one volatileTaskRepo.MarkAsDispatched issues;
                       # held to VSplit.v (VSys.v + the label XSplitMark)
                       vsplit_suite("c03-vsys-split", "vc03_ok", {"n": 25, "shards": 3}, {"n": 60, "shards": 16})]},
    "C04": {"gen_obligations": ["src:ent-guarded-update"], "suites": [sys_suite("c04-sys", "c04_ok", {"n": 25, "shards": 8}, {"n": 200, "shards": 16}),
                       sys_suite("c04-sys-faults", "c04_ok", {"n": 25, "shards": 6}, {"n": 150, "shards": 16}, extra=["--faults"]),
                       sys_suite("c04-sys-corefaults", "c04_ok", {"n": 25, "shards": 3}, {"n": 100, "shards": 16}, extra=["--faults", "--core-faults"]),
                       sys_suite("c04-sys-ent", "c04_ok", {"n": 25, "shards": 3}, {"n": 100, "shards": 16}, extra=["--impl", "ent", "--faults"]),
                       vsys_suite("c04-vsys", "vc04_ok", {"n": 25, "shards": 2}, {"n": 60, "shards": 16}),
                       # cron edits between the Peek and the Pop of one volatileTaskRepo.MarkAsDispatched (VSplit.v)
                       vsplit_suite("c04-vsys-split", "vc04_ok", {"n": 25, "shards": 4}, {"n": 60, "shards": 16})]},
    "C05": {"suites": [sys_suite("c05-sys", "c05_ok", {"n": 25, "shards": 8}, {"n": 200, "shards": 16}),
                       sys_suite("c05-sys-faults", "c05_ok", {"n": 25, "shards": 6}, {"n": 150, "shards": 16}, extra=["--faults"]),
                       sys_suite("c05-sys-ent", "c05_ok", {"n": 25, "shards": 3}, {"n": 100, "shards": 16}, extra=["--impl", "ent"]),
                       vsys_suite("c05-vsys", "vc05_ok", {"n": 25, "shards": 4}, {"n": 60, "shards": 16}),
                       # cron edits between the Peek and the Pop of one volatileTaskRepo.MarkAsDispatched (VSplit.v)
                       vsplit_suite("c05-vsys-split", "vc05_ok", {"n": 25, "shards": 2}, {"n": 60, "shards": 16})]},
    "C06": {"suites": [sys_suite("c06-sys", "c06_ok", {"n": 25, "shards": 10}, {"n": 200, "shards": 16}),
                       sys_suite("c06-sys-ent", "c06_ok", {"n": 25, "shards": 3}, {"n": 100, "shards": 16}, extra=["--impl", "ent"]),
                       # the dispatch context is cancelled between the fetch and the start of the work function: the run ends
                       # cancelled without starting (LWorkEnd id OCanceled for an accepted id)
                       sys_suite("c06-sys-cancel-in-fetch", "c06_ok", {"n": 25, "shards": 4}, {"n": 150, "shards": 16},
                                 extra=["--cancel-in-fetch"])],
            "rule": "three suites: pipeline schedules over the in-memory and over the ent repository (work functions ending nil / error / DeadlineExceeded / panic with string or non-string value / unknown work id / cancelled dispatcher, arbitrary completion order, 1-16 workers), and a suite in which the dispatch context is sometimes cancelled between the fetch and the start of the work function (the run ends cancelled without starting), all held to the monitor; distinct = distinct sha1 of the printed label trace"},
    "C20": {"suites": [sys_suite("c20-sys", "c20_ok", {"n": 25, "shards": 10}, {"n": 200, "shards": 16}, extra=["--faults"]),
                       sys_suite("c20-sys-ent", "c20_ok", {"n": 25, "shards": 3}, {"n": 100, "shards": 16}, extra=["--impl", "ent", "--faults"]),
                       # every placement of one fault (quick) and of two faults (thorough) over the scheduler's calls of base scenarios
                       sys_suite("c20-sys-exhaustive", "c20_ok", {"n": 0, "shards": 6, "args": ["--exhaustive", "3"]},
                                 {"n": 0, "shards": 16, "args": ["--exhaustive", "2", "--pairs"]}, length=100),
                       # the failing MarkAsDispatched is the CORE repository's (before / after taking effect): the observable
                       # wrapper sees it too and still runs its hook (F20): fault kinds FBeforeHook / FAfter of Sys.v
                       sys_suite("c20-sys-corefaults", "c20_ok", {"n": 40, "shards": 4}, {"n": 200, "shards": 16},
                                 extra=["--faults", "--core-faults"]),
                       # cron / volatile configuration: the store's Pop fails transiently inside MarkAsDispatched (held to
                       # VSys.v, whose MarkAsDispatched accepts exactly that failure: head_bound)
                       vsys_suite("c20-vsys-faults", "vall_ok", {"n": 25, "shards": 4}, {"n": 60, "shards": 16},
                                  extra=["--vfaults"])],
            "rule": "five suites. Held to the monitor: random multi-fault schedules over the in-memory and over the ent repository (a sixth of the scheduler's calls fails before or after taking effect, alternately with a plain error and a wrapped context.Canceled; failing look-ups inside the hook; dispatches cancelled while waiting for a worker) and, for seeded base scenarios, EVERY placement of one fault (thorough: of two faults) over the scheduler's calls before quiescence, one run per placement. Also held to the monitors: failures of the CORE repository's MarkAsDispatched below the observable wrapper (fault kinds FBeforeHook / FAfter), and transient Pop failures of the store in the cron / volatile configuration (VSys.v). Every run ends with a fault-free quiescence phase; distinct = distinct sha1 of the printed label trace"},
    "C07": {"suites": [
        hook_suite("c07-hook", {"n": 40, "shards": 8}, {"n": 400, "shards": 16}),
        hook_suite("c07-hook-faults", {"n": 30, "shards": 4}, {"n": 300, "shards": 16}, extra=["--faults"]),
        # every sequence of 2 (thorough: 3) operations over the small domains after a drawn prefix
        # ("exhaustively to a bounded depth")
        hook_suite("c07-hook-exhaustive", {"n": 3, "shards": 4, "args": ["--exhaustive", "2", "--full-domain"]},
                   {"n": 1, "shards": 16, "args": ["--exhaustive", "3", "--max-ids", "2"]}, length=4),
        hook_conc_suite("c07-hook-concurrent", {"n": 150, "shards": 4}, {"n": 1500, "shards": 16}),
    ], "rule": "four suites: random hook histories (40 operations over 3 times x 3 priorities, sub-millisecond parts), the same with failing look-ups inside re-arming, EVERY sequence of 2 (thorough: 3) operations over the small domains after a drawn prefix (exhaustive to that depth for the prefixes drawn), and 2-3 goroutines mutating shared tasks at once judged at quiescence; distinct = distinct sha1 of the printed history (all carry their own observations)"},
    "C08": {"suites": [
        pool_suite("c08-pool", {"n": 40, "shards": 8}, {"n": 400, "shards": 16}),
    ], "rule": "1..4 initial workers, up to 12 dispatching goroutines with gated work functions, random interleavings of launch / release / cancel-waiting / Add / Remove; the observed event sequence must be accepted by the pool LTS; distinct = distinct event sequence"},
    "C09": {"suites": [
        proto_suite("c09-proto", {"n": 3, "shards": 4}, {"n": 40, "shards": 16}),
    ], "rule": "the full product of fetch outcome x registry hit/miss x deadline none/past/future x cancellation instant (never / before dispatch / in fetch / during work) x work behaviour (nil / error / panic / block-until-cancelled), minus scenarios in which a blocking work function would never return; each run on the real dispatcher with one worker; distinct = distinct scenario"},
    "C15": {"suites": [
        cron_suite("c15-cron", "c15", "false true", "false true", {"n": 12, "shards": 12}, {"n": 100, "shards": 16}),
    ], "rule": "entry sets over a pool of cron expressions (5/6 fields, @every, TZ=, JsonExp, colliding times, priorities, deterministic mutators), histories of Pop/Peek/Schedule/EditTask; popped tasks and Schedule() compared with occurrence streams computed from separately parsed robfig schedules"},
    "C16": {"suites": [
        cron_suite("c16-cron", "c16", "false true", "false true", {"n": 12, "shards": 12}, {"n": 100, "shards": 16}),
    ]},
    "C17": {"suites": [
        cron_suite("c17-cron", "c17", "true true", "true false", {"n": 12, "shards": 12}, {"n": 100, "shards": 16}),
    ]},
    "C18": {"suites": [
        mut_suite("c18-mut", {"n": 400, "shards": 8}, {"n": 3000, "shards": 16}),
        cron_suite("c18-cron", "c15", "false true", "false true", {"n": 10, "shards": 6}, {"n": 80, "shards": 16}),
    ], "rule": "metadata maps over a pool of duration strings (empty, garbage, ints, durations, negative, zero, equal, swapped, extreme), original times, PRNG / all-zero random source, executed under recover; distinct = distinct sha1 of the printed case (all are non-trivial: each has its own metadata/oracle)"},
    "C12": {"suites": [
        repo_suite("c12-inmem", "inmem", "c01", "p_C12", {"n": 25, "shards": 7}, {"n": 200, "shards": 16}),
        repo_suite("c12-ent", "ent", "c13", "p_C12", {"n": 20, "shards": 7}, {"n": 150, "shards": 16}),
    ]},
}

PROP_FILES = {
    "C01": ["Props/C01.v"],
    "C12": ["Props/C12.v"],
    "C02": ["Props/C02.v"],
    "C11": ["Props/C11.v"],
    "C13": ["Props/C13.v"],
    "C14": ["Props/C14.v"],
    "C19": ["Props/C19.v"],
    "C18": ["Props/C18.v"],
    "C15": ["Props/C15.v"],
    "C16": ["Props/C16.v"],
    "C17": ["Props/C17.v"],
    "C03": ["Props/C03.v"], "C04": ["Props/C04.v"], "C05": ["Props/C05.v"], "C06": ["Props/C06.v"],
    "C07": ["Props/C07.v"], "C20": ["Props/C20.v"],
    "C10": ["Props/C10.v"],
    "C08": ["Props/C08.v"],
    "C09": ["Props/C09.v"],
}

TRUSTED_BASE = [
    "Coq 8.16.1 kernel (coqc) incl. its VM (vm_compute) used to evaluate the model on observed histories; no native_compute",
    "axioms: none (every property theorem must print 'Closed under the global context')",
    "hand-written Coq model of /repo's code (coq/*.v); tied to the code by differential execution of generated histories (tools/check, harness/), bounded and sampled",
    "Go harness: generators, virtual clock, projection of errors (library's own classifiers) and times, Coq term printer (harness/internal/cq)",
    "verif-tagged add-only hooks in /repo (clock / id generator injection, probes)",
    "tools/go2coq (C10, C04, C13 only): syntactic extraction of lock statements / guarded-UPDATE call chains from the Go source; that holding sync.Mutex for a whole call, resp. one guarded SQL statement, is atomic",
]

ASSUMPTIONS = [
    "fresh_ids: the id generator never returns the same id twice (uuid in production; injected counter in the harness)",
    "instants are >= Go zero time; Go's Truncate = floor on the absolute instant",
]

PARTIAL = {
    "C10": "mutual exclusion of sync.Mutex, atomicity of one SQLite statement and the Go memory model are assumed; real concurrent histories are recorded and judged, goroutine interleavings are sampled by the runtime, not enumerated",
    "C08": "goroutine scheduling, the unbuffered-channel rendezvous and ngicks/workerpool (Add/Remove/worker loop) are modelled by an LTS over observable events, not verified; the real dispatcher's event sequences are validated against it",
    "C13": "durability and single-statement atomicity of SQLite are assumed by the model (each acknowledged operation = one transition); exercised by SIGKILLing a child process at operation boundaries and inside operations, not proved; kills of a whole scheduler + worker-pool pipeline are not exercised",
}
